"""terms -- provenance terms by abstract evaluation of function bodies (DESIGN 3.D/3.E/3.F).

Every function body is turned, *without running it*, into
  * a list of guarded exits  (return / raise, each with its path condition = list of (atom, polarity)),
  * a list of effects        (stores, mutating calls, with path condition and enclosing loops),
  * loop records             (carried variables with init/update terms, test, iterator, inner exits),
  * call records             (every call site with resolved callee and argument terms).
Expressions become variable-free terms (nested tuples): locals are eliminated by copy propagation,
structured branches merge into ('ite', c, a, b), NewType constructors / typ.cast / single-return
package helpers are inlined, comparisons are normalised.  Conditions stay *uninterpreted atoms*:
no value is ever computed except by constant folding of literal arithmetic.
"""
from __future__ import annotations

import ast
import builtins as _builtins
from dataclasses import dataclass, field
from typing import Any, Optional

from .report import AnalysisError, Unproven
from .srcmodel import ClassInfo, FuncInfo, ModuleInfo, Program, dotted, target_names

Term = tuple

MUTATING_METHODS = {
    "append", "extend", "insert", "remove", "pop", "clear", "sort", "reverse", "add", "discard", "update",
    "setdefault", "popitem", "appendleft", "popleft", "extendleft", "__setitem__", "__delitem__", "__setattr__",
    "__delattr__", "write", "writelines", "put", "send", "cache_clear", "move_to_end", "rotate", "subtract",
    "intersection_update", "difference_update", "symmetric_difference_update",
}

PURE_BUILTINS = {"int", "float", "str", "abs", "round", "len", "tuple", "sum", "min", "max", "bool", "repr",
                 "list", "sorted", "divmod", "pow", "ord", "chr", "frozenset", "range", "enumerate", "zip",
                 "isinstance", "issubclass", "any", "all", "type", "hasattr", "getattr", "id", "hash", "iter",
                 "next", "filter", "map", "reversed", "set", "dict", "bytes", "format", "callable", "slice"}


# --------------------------------------------------------------------------------------------------
@dataclass
class Exit:
    kind: str  # 'ret' | 'raise' | 'break' | 'continue'
    value: Term
    cond: tuple  # ((atom, polarity), ...)
    node: ast.AST
    loops: tuple = ()
    handled: Optional[str] = None  # for 'raise' inside try bodies: handler class that catches it (informational)


@dataclass
class Effect:
    kind: str  # 'store_attr' | 'store_sub' | 'del' | 'mutcall' | 'global_store' | 'aug_attr' | 'aug_sub'
    target: Term  # receiver object term
    key: Any  # attribute name / index term / method name
    value: Any  # stored value term / call args
    cond: tuple
    loops: tuple
    node: ast.AST
    trys: tuple = ()  # enclosing try records (id, handler classes)


@dataclass
class CallRec:
    fn: Term
    args: tuple
    kwargs: tuple  # ((name, term), ...) sorted
    cond: tuple
    loops: tuple
    node: ast.AST
    result: Term
    trys: tuple = ()
    inlined: bool = False

    def kw(self, name: str, default=None):
        for k, v in self.kwargs:
            if k == name:
                return v
        return default


@dataclass
class LoopInfo:
    id: str
    kind: str  # 'for' | 'while'
    node: ast.AST
    target: Any  # ast target for 'for'
    iter: Optional[Term]
    test: Optional[Term]
    carried: dict  # name -> (init term, update term at normal end of body | None)
    continue_updates: list  # [(cond, {name: term})]
    break_states: list  # [(cond, {name: term})]
    parent: Optional[str]
    has_else: bool = False
    body_falls: bool = True
    fall_cond: tuple = ()
    depth: int = 0
    cond: tuple = ()  # path condition at loop entry


@dataclass
class TryInfo:
    id: str
    node: ast.Try
    handlers: list  # [(class term list | None(bare), has_reraise)]


@dataclass
class Summary:
    func: Optional[FuncInfo]
    exits: list = field(default_factory=list)
    effects: list = field(default_factory=list)
    loops: dict = field(default_factory=dict)
    calls: list = field(default_factory=list)
    trys: dict = field(default_factory=dict)
    final_env: dict = field(default_factory=dict)
    unsupported: list = field(default_factory=list)
    defs: dict = field(default_factory=dict)  # nested def name -> defining Env

    def rets(self) -> list:
        return [e for e in self.exits if e.kind == "ret"]

    def raises(self) -> list:
        return [e for e in self.exits if e.kind == "raise"]

    def ret_term(self) -> Optional[Term]:
        """Single merged return term (ITE over path conditions), or None if there is no return."""
        rs = self.rets()
        if not rs:
            return None
        return merge_exits(rs)


def merge_exits(rs: list) -> Term:
    """Build an ITE tree from mutually exclusive guarded exits (in source order)."""
    if len(rs) == 1:
        return rs[0].value
    # split on the first literal on which exits differ
    def build(items, depth):
        if len(items) == 1:
            return items[0][1]
        vals = {it[1] for it in items}
        if len(vals) == 1:
            return items[0][1]
        # choose first atom at position `depth` of the first item
        for pos in range(depth, max(len(it[0]) for it in items)):
            atoms = [it[0][pos] if pos < len(it[0]) else None for it in items]
            a0 = next((a for a in atoms if a is not None), None)
            if a0 is None:
                continue
            atom = a0[0]
            yes = [it for it in items if pos < len(it[0]) and it[0][pos] == (atom, True)]
            no = [it for it in items if pos < len(it[0]) and it[0][pos] == (atom, False)]
            if len(yes) + len(no) != len(items) or not yes or not no:
                continue
            return ("ite", atom, build(yes, pos + 1), build(no, pos + 1))
        return ("choice", tuple((it[0], it[1]) for it in items))

    return build([(e.cond, e.value) for e in rs], 0)


# --------------------------------------------------------------------------------------------------
class Env:
    def __init__(self, parent: Optional["Env"] = None) -> None:
        self.vars: dict = {}
        self.parent = parent

    def get(self, name: str):
        e: Optional[Env] = self
        while e is not None:
            if name in e.vars:
                return e.vars[name]
            e = e.parent
        return None

    def copy(self) -> "Env":
        n = Env(self.parent)
        n.vars = dict(self.vars)
        return n


class State:
    __slots__ = ("env", "cond")

    def __init__(self, env: Env, cond: tuple) -> None:
        self.env = env
        self.cond = cond


# --------------------------------------------------------------------------------------------------
def mk_not(t: Term) -> Term:
    if t[0] == "not":
        return t[1]
    if t[0] == "const":
        return ("const", not t[1])
    return ("not", t)


def literal(t: Term) -> tuple:
    """(atom, polarity) of a condition term."""
    if t[0] == "not":
        a, p = literal(t[1])
        return a, not p
    return t, True


def mk_cmp(op: str, a: Term, b: Term) -> Term:
    if op == ">":
        return ("cmp", "<", b, a)
    if op == ">=":
        return ("cmp", "<=", b, a)
    if op == "!=":
        return mk_not(mk_cmp("==", a, b))
    if op == "isnot":
        return mk_not(mk_cmp("is", a, b))
    if op == "notin":
        return mk_not(("cmp", "in", a, b))
    if op in ("==", "is"):
        if a[0] == "const" and b[0] == "const" and op == "==":
            try:
                return ("const", a[1] == b[1])
            except Exception:
                pass
        if repr(a) > repr(b):
            a, b = b, a
        return ("cmp", op, a, b)
    return ("cmp", op, a, b)


def mk_ite(c: Term, a: Term, b: Term) -> Term:
    if a == b:
        return a
    if c[0] == "const":
        return a if c[1] else b
    if c[0] == "not":
        return mk_ite(c[1], b, a)
    return ("ite", c, a, b)


def mk_proj(t: Term, k: int) -> Term:
    if t[0] in ("tuple", "list") and k < len(t[1]):
        return t[1][k]
    if t[0] == "const" and isinstance(t[1], tuple) and k < len(t[1]):
        return ("const", t[1][k])
    if t[0] == "ite":
        return mk_ite(t[1], mk_proj(t[2], k), mk_proj(t[3], k))
    return ("proj", t, k)


_BINOPS = {
    ast.Add: "+", ast.Sub: "-", ast.Mult: "*", ast.Div: "/", ast.FloorDiv: "//", ast.Mod: "%", ast.Pow: "**",
    ast.BitOr: "|", ast.BitAnd: "&", ast.BitXor: "^", ast.LShift: "<<", ast.RShift: ">>", ast.MatMult: "@",
}
_CMPOPS = {
    ast.Eq: "==", ast.NotEq: "!=", ast.Lt: "<", ast.LtE: "<=", ast.Gt: ">", ast.GtE: ">=", ast.Is: "is",
    ast.IsNot: "isnot", ast.In: "in", ast.NotIn: "notin",
}


def fold_binop(op: str, a, b):
    """Constant folding of literal arithmetic (static: operands are source literals)."""
    try:
        if op == "+":
            return a + b
        if op == "-":
            return a - b
        if op == "*":
            if isinstance(a, (str, tuple, list)) or isinstance(b, (str, tuple, list)):
                if (isinstance(a, int) and a > 64) or (isinstance(b, int) and b > 64):
                    return None
            return a * b
        if op == "/":
            return a / b
        if op == "//":
            return a // b
        if op == "%":
            if isinstance(a, str):
                return None
            return a % b
        if op == "**":
            if isinstance(b, (int, float)) and abs(b) > 64:
                return None
            return a ** b
    except Exception:
        return None
    return None


# --------------------------------------------------------------------------------------------------
class Evaluator:
    def __init__(self, prog: Program) -> None:
        self.prog = prog
        self._summaries: dict = {}
        self._depth = 0
        self._site = 0
        self._loop_counter = 0
        # second-chance normal form (driver): inside the functions named here, private helpers the checkers never look at
        # themselves are inlined even when they have several returns or contain loops (see call_func)
        self.deep_inline_in: set = set()
        self.deep_protect: set = set()
        self.deep_inlined: set = set()
        self._global_cache: dict = {}
        self._desugar_cache: dict = {}
        self._newtypes: Optional[dict] = None
        from .types import Types

        self.types = Types(prog, self)

    # ------------------------------------------------------------------ public
    def summary(self, f: FuncInfo) -> Summary:
        if f.qual not in self._summaries:
            self._summaries[f.qual] = None  # recursion guard
            self._summaries[f.qual] = self.evaluate(f, None, None)
        s = self._summaries[f.qual]
        if s is None:
            raise Unproven(f.qual, f"{f.qual} is (mutually) recursive: outside what the evaluator summarises")
        return s

    def evaluate(self, f: FuncInfo, args: Optional[dict], closure: Optional[Env], inline_depth: int = 0) -> Summary:
        """Evaluate f's body. args: param name -> term (missing params stay symbolic)."""
        fe = _FuncEval(self, f, args or {}, closure, inline_depth)
        return fe.run()

    def newtypes(self) -> dict:
        """qualified NewType name -> supertype expression ast."""
        if self._newtypes is None:
            nt = {}
            for m in self.prog.modules.values():
                for name, (v, a, ln) in m.assigns.items():
                    if isinstance(v, ast.Call):
                        d = self.prog._canon_ext(m, dotted(v.func))
                        if d == "typing.NewType" and len(v.args) == 2:
                            nt[f"{m.name}.{name}"] = (m, v.args[1])
            self._newtypes = nt
        return self._newtypes

    def global_value(self, m: ModuleInfo, name: str) -> Term:
        """Term of a module-level assignment, evaluated in module context (lazily, memoised)."""
        key = (m.name, name)
        if key in self._global_cache:
            v = self._global_cache[key]
            if v is None:
                return ("gvar", f"{m.name}.{name}")
            return v
        self._global_cache[key] = None
        v, a, ln = m.assigns[name]
        if v is None:
            t = ("gvar", f"{m.name}.{name}")
        else:
            fe = _FuncEval(self, None, {}, None, 0, module=m)
            t = fe.expr(v, State(Env(), ()))
        self._global_cache[key] = t
        return t

    def class_attr_value(self, c: ClassInfo, name: str) -> Optional[Term]:
        """Term of a class-level assignment `name = expr` found through c's MRO, evaluated in the
        defining class-body context."""
        found = c.find_attr(name)
        if found is None:
            return None
        owner, v, a = found
        key = (owner.qual, name)
        if key in self._global_cache:
            r = self._global_cache[key]
            return r if r is not None else ("cattr", owner.qual, name)
        self._global_cache[key] = None
        fe = _FuncEval(self, None, {}, None, 0, module=owner.module, cls_body=owner)
        t = fe.expr(v, State(Env(), ()))
        self._global_cache[key] = t
        return t


class _FuncEval:
    def __init__(self, ev: Evaluator, f: Optional[FuncInfo], args: dict, closure: Optional[Env], inline_depth: int,
                 module: Optional[ModuleInfo] = None, cls_body: Optional[ClassInfo] = None,
                 parent_eval: Optional["_FuncEval"] = None) -> None:
        self.parent_eval = parent_eval
        self.ev = ev
        self.prog = ev.prog
        self.f = f
        self.m: ModuleInfo = f.module if f is not None else module  # type: ignore
        self.args = args
        self.closure = closure
        self.depth = inline_depth
        self.cls_body = cls_body
        self.s = Summary(f)
        self.loop_stack: list = []
        self.try_stack: list = []
        self.global_names: set = set()
        self.owner_cls: Optional[ClassInfo] = None
        if f is not None:
            g = f
            while g is not None and g.cls is None and g.parent is not None:
                g = g.parent
            self.owner_cls = g.cls if g is not None else None

    # ------------------------------------------------------------------ driver
    def run(self) -> Summary:
        f = self.f
        assert f is not None
        env = Env(self.closure)
        node = f.node
        a = node.args
        all_params = a.posonlyargs + a.args + a.kwonlyargs
        defaults = {}
        pos = a.posonlyargs + a.args
        for p, d in zip(pos[len(pos) - len(a.defaults):], a.defaults):
            defaults[p.arg] = d
        for p, d in zip(a.kwonlyargs, a.kw_defaults):
            if d is not None:
                defaults[p.arg] = d
        for i, p in enumerate(all_params):
            if p.arg in self.args:
                env.vars[p.arg] = self.args[p.arg]
            elif i == 0 and f.kind in ("method", "property", "cached_property") and f.cls is not None:
                env.vars[p.arg] = ("self", f.cls.qual)
            elif i == 0 and f.kind == "classmethod" and f.cls is not None:
                env.vars[p.arg] = ("clsparam", f.cls.qual)
            else:
                env.vars[p.arg] = ("param", p.arg)
        if a.vararg:
            env.vars[a.vararg.arg] = self.args.get(a.vararg.arg, ("param", "*" + a.vararg.arg))
        if a.kwarg:
            env.vars[a.kwarg.arg] = self.args.get(a.kwarg.arg, ("param", "**" + a.kwarg.arg))
        self.defaults = defaults
        if isinstance(node, ast.Lambda):
            st = State(env, ())
            v = self.expr(node.body, st)
            self.s.exits.append(Exit("ret", v, st.cond, node))
            return self.s
        st = State(env, ())
        body_ = self._eager_generator_body(f) or node.body
        out = self.block(body_, st)
        if out is not None:
            self.s.exits.append(Exit("ret", ("const", None), out.cond, node, tuple(self.loop_stack)))
            self.s.final_env = dict(out.env.vars)
        return self.s

    # ------------------------------------------------------------------ statements
    def block(self, stmts, st: Optional[State]) -> Optional[State]:
        stmts = list(stmts)
        i = 0
        while i < len(stmts):
            if st is None:
                return None
            if self.ev.deep_inline_in and i + 1 < len(stmts):
                blk = self._expand_option_helper(stmts[i], stmts[i + 1], st)
                if blk is not None:
                    st = self.block(blk, st)
                    i += 2
                    continue
                # `x = H(a); if x is None: <leaves>; REST`  ==  `x = H(a); if x is None: <leaves> else: REST`
                s2_ = stmts[i + 1]
                if isinstance(s2_, ast.If) and not s2_.orelse and i + 2 < len(stmts) and s2_.body and \
                        isinstance(s2_.body[-1], (ast.Raise, ast.Return)):
                    k2 = ("t3rest", s2_)
                    alt = self._desugared.get(k2)
                    if alt is None:
                        import copy as _copy
                        alt = _copy.copy(s2_)
                        alt.orelse = list(stmts[i + 2:])
                        self._desugared[k2] = alt
                    blk = self._expand_option_helper(stmts[i], alt, st)
                    if blk is not None:
                        return self.block(blk, st)
            if self.ev.deep_inline_in and i + 1 < len(stmts) and isinstance(stmts[i], (ast.For, ast.While)) and self._in_deep_root():
                blk = self._duplicate_tail(stmts[i], stmts[i + 1:])
                if blk is not None:
                    return self.block(blk, st)
            st = self.stmt(stmts[i], st)
            i += 1
        return st

    EAGER_CONSUMERS = ("join", "list", "tuple", "sorted", "sum", "max", "min", "set", "frozenset")

    def _eager_generator_body(self, f) -> Optional[list]:
        """A generator function all of whose calls (in the whole package) are the sole argument of an eager, effect-free consumer
        (`sep.join(g(..))`, `list(g(..))`, `tuple`, `sorted`, `sum`, `max`, `min`, `set`, `frozenset`) is evaluated as the function
        that builds and returns the list of yielded values:  `acc = []`; every `yield V` -> `acc.append(V)`, `yield from X` ->
        `acc.extend(X)`, bare `return` -> `return acc`; `return acc` at the end.  Exact for those call sites: the consumer drains
        the generator completely before anything else happens, so the body runs to its end (or to its first exception) in one go,
        exactly as the list-building function does.  Any other use (a for loop, any/all/next, a stored generator object, a
        `yield` expression whose value is used, `return V`) leaves the function outside the analysed subset."""
        import copy
        node = f.node
        if isinstance(node, ast.Lambda):
            return None
        key = ("gen", node)
        if key in self._desugared:
            return self._desugared[key] or None

        def own(n):  # nodes of this function, not of nested defs / lambdas
            todo = list(ast.iter_child_nodes(n))
            while todo:
                x = todo.pop()
                yield x
                if not isinstance(x, (ast.FunctionDef, ast.AsyncFunctionDef, ast.Lambda, ast.ClassDef)):
                    todo.extend(ast.iter_child_nodes(x))
        ys = [n for n in own(node) if isinstance(n, (ast.Yield, ast.YieldFrom))]
        if not ys:
            self._desugared[key] = []
            return None
        ok = not isinstance(node, ast.AsyncFunctionDef)
        # every yield is an expression statement; every return is bare
        stmt_yields = {id(n.value) for n in own(node) if isinstance(n, ast.Expr) and isinstance(n.value, (ast.Yield, ast.YieldFrom))}
        ok = ok and all(id(y) in stmt_yields for y in ys) and all(y.value is not None for y in ys)
        ok = ok and not any(isinstance(n, ast.Return) and n.value is not None for n in own(node))
        # every call site in the package is the sole argument of an eager consumer
        if ok:
            n_sites = 0
            for fi in list(self.prog.functions.values()) + list(self.prog.lambdas.values()):
                parents = {}
                for p_ in ast.walk(fi.node):
                    for c_ in ast.iter_child_nodes(p_):
                        parents[id(c_)] = p_
                for n in ast.walk(fi.node):
                    if isinstance(n, (ast.Name, ast.Attribute)) and (n.id if isinstance(n, ast.Name) else n.attr) == f.name:
                        call = parents.get(id(n))
                        if not (isinstance(call, ast.Call) and call.func is n):
                            ok = False
                            continue
                        outer = parents.get(id(call))
                        fn_ = outer.func if isinstance(outer, ast.Call) else None
                        nm = fn_.id if isinstance(fn_, ast.Name) else fn_.attr if isinstance(fn_, ast.Attribute) else None
                        if not (isinstance(outer, ast.Call) and nm in self.EAGER_CONSUMERS and len(outer.args) == 1 and outer.args[0] is call
                                and all(k_.arg in ("key", "reverse", "default", "start") for k_ in outer.keywords)):
                            ok = False
                        n_sites += 1
            for m_ in self.prog.modules.values():  # a use at module level (outside any function) is not examined: refuse
                for n in ast.walk(m_.tree):
                    if isinstance(n, ast.Name) and n.id == f.name and isinstance(n.ctx, ast.Load):
                        if not any(n is x for fi in self.prog.functions.values() for x in ast.walk(fi.node)):
                            ok = False
            ok = ok and n_sites > 0
        if not ok:
            self._desugared[key] = []
            return None
        acc = f"_yielded_{getattr(node, 'lineno', 0)}"

        class R(ast.NodeTransformer):
            def visit_FunctionDef(self, n):
                return n

            visit_AsyncFunctionDef = visit_Lambda = visit_ClassDef = visit_FunctionDef

            def visit_Expr(self, n):
                v = n.value
                if isinstance(v, ast.Yield):
                    c = ast.Call(func=ast.Attribute(value=ast.Name(id=acc, ctx=ast.Load()), attr="append", ctx=ast.Load()), args=[v.value], keywords=[])
                    return ast.copy_location(ast.Expr(value=c), n)
                if isinstance(v, ast.YieldFrom):
                    c = ast.Call(func=ast.Attribute(value=ast.Name(id=acc, ctx=ast.Load()), attr="extend", ctx=ast.Load()), args=[v.value], keywords=[])
                    return ast.copy_location(ast.Expr(value=c), n)
                return n

            def visit_Return(self, n):
                return ast.copy_location(ast.Return(value=ast.Name(id=acc, ctx=ast.Load())), n)
        body = [R().visit(copy.deepcopy(b)) for b in node.body]
        init = ast.Assign(targets=[ast.Name(id=acc, ctx=ast.Store())], value=ast.List(elts=[], ctx=ast.Load()))
        fin = ast.Return(value=ast.Name(id=acc, ctx=ast.Load()))
        out = [ast.copy_location(init, node)] + body + [ast.copy_location(fin, node.body[-1])]
        for n in out:
            ast.fix_missing_locations(n)
        self._desugared[key] = out
        return out

    def _in_deep_root(self) -> bool:
        root = self
        while getattr(root, "parent_eval", None) is not None:
            root = root.parent_eval
        return root.f is not None and root.f.qual in self.ev.deep_inline_in

    def _duplicate_tail(self, loop: ast.AST, rest: list) -> Optional[list]:
        """T5  loop{... break ...} [else: E]; R      ==>   loop{... R' ...} [else: E]; R        (R' a copy of R)
        when R leaves the function on every path (ends in return / raise).  A `break` transfers control to the statement after
        the loop, which is R, and R never comes back: executing a copy of R at the break is the same computation (tail
        duplication).  This is the inverse of the single-exit style (`x = V; break ... else: x = W ... return x`), which it turns back
        into `return V` inside the loop.  R must not contain a break / continue of its own level (it would bind to this loop once
        copied) nor definitions; the loop's breaks inside a try with a finally clause are left alone."""
        import copy
        key = ("tail", loop)
        if key in self._desugared:
            got = self._desugared[key]
            return (got + list(rest)) if got else None

        def terminates(stmts_) -> bool:
            if not stmts_:
                return False
            last = stmts_[-1]
            if isinstance(last, (ast.Return, ast.Raise)):
                return True
            if isinstance(last, ast.If):
                return terminates(last.body) and terminates(last.orelse)
            return False

        def jumps(stmts_) -> bool:
            for y in stmts_:
                if isinstance(y, (ast.Break, ast.Continue, ast.FunctionDef, ast.AsyncFunctionDef, ast.ClassDef)):
                    return True
                if isinstance(y, (ast.For, ast.While)):
                    if jumps(y.orelse):
                        return True
                    continue
                for fld in ("body", "orelse", "finalbody"):
                    sub = getattr(y, fld, None)
                    if isinstance(sub, list) and jumps([z for z in sub if isinstance(z, ast.stmt)]):
                        return True
                for h in getattr(y, "handlers", []) or []:
                    if jumps(h.body):
                        return True
            return False
        if not terminates(rest) or jumps(rest) or len(rest) > 6 or \
                any(isinstance(n, (ast.Lambda, ast.Yield, ast.YieldFrom, ast.Await)) for r_ in rest for n in ast.walk(r_)):
            self._desugared[key] = []
            return None
        n_breaks = [0]

        def rewrite(stmts_):
            out = []
            for y in stmts_:
                if isinstance(y, ast.Break):
                    n_breaks[0] += 1
                    out.extend(copy.deepcopy(r_) for r_ in rest)
                    continue
                if isinstance(y, (ast.For, ast.While, ast.FunctionDef, ast.AsyncFunctionDef, ast.ClassDef)):
                    out.append(y)  # a nested loop's breaks are its own
                    continue
                if isinstance(y, ast.Try) and y.finalbody and any(isinstance(n, ast.Break) for n in ast.walk(y)):
                    raise ValueError
                if isinstance(y, (ast.With, ast.Match)) and any(isinstance(n, ast.Break) for n in ast.walk(y)):
                    raise ValueError
                if any(isinstance(getattr(y, fld, None), list) for fld in ("body", "orelse", "handlers")):
                    y2 = copy.copy(y)
                    for fld in ("body", "orelse", "finalbody"):
                        sub = getattr(y, fld, None)
                        if isinstance(sub, list):
                            setattr(y2, fld, rewrite(sub))
                    if getattr(y, "handlers", None):
                        hs = []
                        for h in y.handlers:
                            h2 = copy.copy(h)
                            h2.body = rewrite(h.body)
                            hs.append(h2)
                        y2.handlers = hs
                    out.append(y2)
                else:
                    out.append(y)
            return out
        try:
            new_loop = copy.copy(loop)
            new_loop.body = rewrite(loop.body)
        except ValueError:
            self._desugared[key] = []
            return None
        if not n_breaks[0]:
            self._desugared[key] = []
            return None
        self._desugared[key] = [new_loop]
        self.ev.deep_inlined.add(f"<tail duplicated into the breaks of the loop at line {getattr(loop, 'lineno', 0)}>")
        return [new_loop] + list(rest)

    def _expand_option_helper(self, s1: ast.AST, s2: ast.AST, st: State) -> Optional[list]:
        """T3  x = H(a)                          H  ==  prefix; loop{... return V ...}; return None      (V never None)
               if x is None: S_none              ==>  prefix; loop{... x = V; S_some; break ...} else: S_none
               else:         S_some
        A "find the first ... or None" helper followed by the test of its result.  Equivalent because V is not None (so the
        test tells exactly which return was taken), nothing runs between H's return and the test, and x is not used afterwards;
        S_some must not contain a break/continue of an enclosing loop (it moves inside H's loop)."""
        import copy
        if not (isinstance(s1, ast.Assign) and len(s1.targets) == 1 and isinstance(s1.targets[0], ast.Name) and isinstance(s1.value, ast.Call)
                and isinstance(s2, ast.If)):
            return None
        x = s1.targets[0].id
        t = s2.test
        if not (isinstance(t, ast.Compare) and len(t.ops) == 1 and isinstance(t.ops[0], (ast.Is, ast.IsNot)) and isinstance(t.left, ast.Name)
                and t.left.id == x and isinstance(t.comparators[0], ast.Constant) and t.comparators[0].value is None):
            return None
        s_none, s_some = (s2.body, s2.orelse) if isinstance(t.ops[0], ast.Is) else (s2.orelse, s2.body)
        call = s1.value
        if any(isinstance(a, ast.Starred) for a in call.args) or any(k.arg is None for k in call.keywords):
            return None
        f, recv_expr = self._resolve_helper(call.func, st)
        if f is None or isinstance(f.node, ast.Lambda) or f.module is not self.m or not self._deep(f):
            return None
        if not (f.name.startswith("_") and not f.name.startswith("__")) or f.nested or f.nested_classes or f.kind in ("property", "cached_property"):
            return None
        a = f.node.args
        if a.vararg or a.kwarg or a.posonlyargs:
            return None
        body = [b for b in f.node.body if not (isinstance(b, ast.Expr) and isinstance(b.value, ast.Constant))]
        if len(body) < 2 or not isinstance(body[-1], ast.Return) or not isinstance(body[-2], (ast.For, ast.While)) or body[-2].orelse:
            return None
        loop, tail, prefix = body[-2], body[-1], body[:-2]
        if not (tail.value is None or (isinstance(tail.value, ast.Constant) and tail.value.value is None)):
            return None
        bad = (ast.Return, ast.Yield, ast.YieldFrom, ast.Await, ast.FunctionDef, ast.Lambda, ast.ClassDef, ast.Global, ast.Nonlocal)
        if any(isinstance(n, bad) for p_ in prefix for n in ast.walk(p_)):
            return None
        if any(isinstance(n, (ast.Yield, ast.YieldFrom, ast.Await, ast.Lambda, ast.FunctionDef, ast.ClassDef, ast.With)) for n in ast.walk(loop)):
            return None
        rets: list = []

        def scan(stmts_, nested):
            for y in stmts_:
                if isinstance(y, ast.Return):
                    if nested:
                        raise ValueError
                    rets.append(y)
                elif isinstance(y, (ast.For, ast.While)):
                    scan(y.body, True)
                    scan(y.orelse, True)
                elif isinstance(y, ast.If):
                    scan(y.body, nested)
                    scan(y.orelse, nested)
                elif isinstance(y, ast.Try):
                    # S_some moves to where the return is: inside a try it would run under the helper's handlers
                    if any(isinstance(z, ast.Return) for z in ast.walk(y)):
                        raise ValueError
        try:
            scan(loop.body, False)
        except ValueError:
            return None
        if not rets:
            return None
        # every returned value is not None: a literal container / string / non-None constant, or the for-loop's own element
        # drawn from a parameter annotated as a sequence of a (non-Optional) package class
        elem_names: set = set()
        if isinstance(loop, ast.For) and isinstance(loop.target, ast.Name) and isinstance(loop.iter, ast.Name) and loop.iter.id in f.params():
            try:
                pt = self.ev.types.param_type(f, loop.iter.id)
            except Exception:
                pt = None
            if pt is not None and pt[0] == "seq" and pt[1][0] == "inst":
                elem_names.add(loop.target.id)

        if isinstance(loop, ast.For) and isinstance(loop.target, ast.Name) and isinstance(loop.iter, ast.Call) and \
                isinstance(loop.iter.func, ast.Name) and loop.iter.func.id in ("range", "enumerate") and "range" not in self.f.params() \
                and loop.iter.func.id == "range":
            elem_names.add(loop.target.id)  # the elements of a range are ints

        # a name returned directly under `if <name>:` / `if <name> is not None:` is not None there
        guarded: set = set()
        for y in ast.walk(loop):
            if isinstance(y, ast.If):
                t_ = y.test
                nm = t_.id if isinstance(t_, ast.Name) else (
                    t_.left.id if isinstance(t_, ast.Compare) and len(t_.ops) == 1 and isinstance(t_.ops[0], ast.IsNot) and
                    isinstance(t_.left, ast.Name) and isinstance(t_.comparators[0], ast.Constant) and t_.comparators[0].value is None else None)
                if nm:
                    z = y.body[0]  # (the first statement of the arm: nothing can rebind the name in between)
                    if isinstance(z, ast.Return) and isinstance(z.value, ast.Name) and z.value.id == nm:
                        guarded.add(id(z.value))

        def non_none(v):
            return isinstance(v, (ast.Tuple, ast.List, ast.Dict, ast.Set, ast.JoinedStr)) or id(v) in guarded or \
                (isinstance(v, ast.Constant) and v.value is not None) or (isinstance(v, ast.Name) and v.id in elem_names)
        if not all(r_.value is not None and non_none(r_.value) for r_ in rets):
            return None
        # x is not used anywhere else in the caller
        if self.f is None:
            return None
        uses = [n for n in ast.walk(self.f.node) if isinstance(n, ast.Name) and n.id == x and isinstance(n.ctx, ast.Load)]
        inside = {id(n) for n in ast.walk(s2)}
        if any(id(n) not in inside for n in uses):
            return None
        # S_some moves inside the helper's loop: it must not break / continue an enclosing loop itself
        def has_loop_jump(stmts_):
            for y in stmts_:
                if isinstance(y, (ast.Break, ast.Continue)):
                    return True
                if isinstance(y, (ast.For, ast.While, ast.FunctionDef, ast.ClassDef)):
                    continue
                for fld in ("body", "orelse", "finalbody"):
                    sub = getattr(y, fld, None)
                    if isinstance(sub, list) and has_loop_jump([z for z in sub if isinstance(z, ast.stmt)]):
                        return True
                for h in getattr(y, "handlers", []) or []:
                    if has_loop_jump(h.body):
                        return True
            return False
        if has_loop_jump(s_some):
            return None
        target = s1.targets[0]

        def finish(out, Ren):
            new_loop = out[-1]

            class R2(ast.NodeTransformer):
                def visit_Return(self, n):
                    assign = ast.copy_location(ast.Assign(targets=[copy.deepcopy(target)], value=n.value), n)
                    return [assign] + [copy.deepcopy(z) for z in s_some] + [ast.copy_location(ast.Break(), n)]
            out[-1] = R2().visit(new_loop)
            out[-1].orelse = [copy.deepcopy(z) for z in s_none] or [ast.Pass()]
        return self._bind_and_rename(f, call, recv_expr, prefix + [loop], st, finish)

    def _exit(self, kind: str, value: Term, st: State, node: ast.AST) -> None:
        self.s.exits.append(Exit(kind, value, st.cond, node, tuple(self.loop_stack)))

    # ---- second-chance normal form: a private helper whose loop returns from inside (see DESIGN A.2 item 8)
    def _expand_loop_helper(self, s: ast.AST, st: State) -> Optional[list]:
        """`x = H(args)` / `if not H(args): S` where the private helper H is `prefix; loop; return ...` with returns inside the
        loop, rewritten to the equivalent caller-local statements (the loop with `break`s), or None.
          T1  every return (inside the loop and the trailing one) returns the same local name E:
                  x = H(a)            ==>   prefix; loop[return E -> break]; x = E
          T2  the returns inside the loop are `return True`, the trailing one `return False`:
                  if not H(a): S      ==>   prefix; loop[return True -> break] else: S
        Both are equivalences of Python's control flow (nothing executes between leaving the loop and the trailing return)."""
        import copy
        if not self.ev.deep_inline_in:
            return None
        call = None
        mode = None
        if isinstance(s, ast.Return) and isinstance(s.value, ast.Call):
            call, mode = s.value, "T4"
        elif isinstance(s, ast.Assign) and len(s.targets) == 1 and isinstance(s.targets[0], ast.Name) and isinstance(s.value, ast.Call):
            call, mode = s.value, "T1"
        elif isinstance(s, ast.If) and not s.orelse and isinstance(s.test, ast.UnaryOp) and isinstance(s.test.op, ast.Not) and \
                isinstance(s.test.operand, ast.Call):
            call, mode = s.test.operand, "T2"
        if call is None or any(isinstance(a, ast.Starred) for a in call.args) or any(k.arg is None for k in call.keywords):
            return None
        # resolve the callee without evaluating anything that could record a call
        f = None
        recv_expr = None
        fn = call.func
        if isinstance(fn, ast.Name):
            v = st.env.get(fn.id)
            if v is None:
                r = self.prog.resolve_name(self.m, fn.id)
                t = self.ref_to_term(r) if r is not None else None
                if t is not None and t[0] == "func":
                    f = self.prog.functions.get(t[1])
        elif isinstance(fn, ast.Attribute) and isinstance(fn.value, ast.Name):
            recv = self.name(fn.value.id, st)
            b = self.attr(recv, fn.attr, fn)
            if b[0] == "func":
                f = self.prog.functions.get(b[1])
            else:
                res = self.resolve_method(recv, fn.attr)
                if res is not None:
                    f = res[0]
                    if f.kind != "staticmethod":
                        recv_expr = fn.value
            if f is not None and f.kind in ("method", "classmethod") and recv_expr is None and recv[0] in ("self", "clsparam", "param"):
                recv_expr = fn.value
        if f is None or isinstance(f.node, ast.Lambda) or f.module is not self.m or not self._deep(f):
            return None
        if not (f.name.startswith("_") and not f.name.startswith("__")) or f.nested or f.nested_classes or f.kind in ("property", "cached_property"):
            return None
        a = f.node.args
        if a.vararg or a.kwarg or a.posonlyargs:
            return None
        body = [b for b in f.node.body if not (isinstance(b, ast.Expr) and isinstance(b.value, ast.Constant))]
        if mode == "T4":
            # T4  a tail call:  return H(a)  ==>  parameter bindings; H's body verbatim (its returns are the caller's returns).
            # Only worth doing (and only done) when H contains a loop: loop-free helpers are inlined as values already.
            if not any(isinstance(n, (ast.For, ast.While)) for n in ast.walk(f.node)) or \
                    any(isinstance(n, (ast.Yield, ast.YieldFrom, ast.Await, ast.Global, ast.Nonlocal)) for n in ast.walk(f.node)):
                return None
            return self._bind_and_rename(f, call, recv_expr, body, st, lambda out, ren: None)
        if len(body) < 2 or not isinstance(body[-1], ast.Return) or not isinstance(body[-2], (ast.For, ast.While)) or body[-2].orelse:
            return None
        loop, tail, prefix = body[-2], body[-1], body[:-2]
        if any(isinstance(n, (ast.Return, ast.Yield, ast.YieldFrom, ast.Await, ast.FunctionDef, ast.Lambda, ast.ClassDef, ast.Global,
                              ast.Nonlocal)) for p_ in prefix for n in ast.walk(p_)):
            return None
        # returns inside the loop: only directly in this loop (not in a nested loop, where `break` would leave the wrong one)
        rets: list = []

        def scan(stmts, in_nested_loop):
            for x in stmts:
                if isinstance(x, ast.Return):
                    if in_nested_loop:
                        raise ValueError
                    rets.append(x)
                elif isinstance(x, (ast.For, ast.While)):
                    scan(x.body, True)
                    scan(x.orelse, True)
                elif isinstance(x, ast.If):
                    scan(x.body, in_nested_loop)
                    scan(x.orelse, in_nested_loop)
                elif isinstance(x, ast.Try):
                    if x.finalbody:
                        raise ValueError
                    scan(x.body, in_nested_loop)
                    scan(x.orelse, in_nested_loop)
                    for h in x.handlers:
                        scan(h.body, in_nested_loop)
                elif isinstance(x, ast.With):
                    raise ValueError
                elif isinstance(x, (ast.FunctionDef, ast.ClassDef)):
                    raise ValueError
        try:
            scan(loop.body, False)
        except ValueError:
            return None
        if not rets or any(isinstance(n, (ast.Yield, ast.YieldFrom, ast.Await, ast.Lambda)) for n in ast.walk(loop)):
            return None

        def same_name(x, y):
            return isinstance(x, ast.Name) and isinstance(y, ast.Name) and x.id == y.id

        def is_const(x, v):
            return isinstance(x, ast.Constant) and x.value is v
        if mode == "T1":
            # T1b  `for i in range(lo, hi): ... return i ...` with the tail `return hi - 1`: the value of i after an exhausted non-empty
            # range.  Expanded like T1 (x = i after the loop); on an empty range the expansion reads an unbound i where the helper
            # returns hi - 1 -- the obligation that i is bound (C18, idiom D12: non-empty range by a dominating guard) is then part of
            # what is proved, so the two agree on every path that passes the checks.
            if (isinstance(loop, ast.For) and isinstance(loop.target, ast.Name) and isinstance(loop.iter, ast.Call)
                    and isinstance(loop.iter.func, ast.Name) and loop.iter.func.id == "range" and len(loop.iter.args) == 2
                    and not loop.iter.keywords and isinstance(tail.value, ast.BinOp) and isinstance(tail.value.op, ast.Sub)
                    and isinstance(tail.value.right, ast.Constant) and tail.value.right.value == 1
                    and ast.dump(tail.value.left) == ast.dump(loop.iter.args[1])
                    and all(r.value is not None and isinstance(r.value, ast.Name) and r.value.id == loop.target.id for r in rets)):
                tail = ast.copy_location(ast.Return(value=ast.Name(id=loop.target.id, ctx=ast.Load())), tail)
            if not (isinstance(tail.value, ast.Name) and all(r.value is not None and same_name(r.value, tail.value) for r in rets)):
                return None
        else:
            if not (is_const(tail.value, False) and all(is_const(r.value, True) for r in rets)):
                return None
        # bind parameters, rename the helper's locals apart
        params = [p_.arg for p_ in a.args + a.kwonlyargs]
        locals_ = set(params)
        for n in ast.walk(f.node):
            if isinstance(n, ast.Name) and isinstance(n.ctx, (ast.Store, ast.Del)):
                locals_.add(n.id)
        if self._captures(f, locals_):
            return None
        self.ev._expand_counter = getattr(self.ev, "_expand_counter", 0) + 1
        suffix = f"__{f.name.strip('_')}{self.ev._expand_counter}"

        class Ren(ast.NodeTransformer):
            def visit_Name(self, n):
                if n.id in locals_:
                    return ast.copy_location(ast.Name(id=n.id + suffix, ctx=n.ctx), n)
                return n

        class Ret2Break(ast.NodeTransformer):
            def visit_Return(self, n):
                return ast.copy_location(ast.Break(), n)

            def visit_For(self, n):  # only the outer loop's own returns exist (checked above); nested loops have none
                return self.generic_visit(n)
        given: dict = {}
        pos = list(a.args)
        args = list(call.args)
        if recv_expr is not None:
            if not pos:
                return None
            given[pos[0].arg] = recv_expr
            pos = pos[1:]
        if len(args) > len(pos):
            return None
        for p_, v in zip(pos, args):
            given[p_.arg] = v
        for k in call.keywords:
            if k.arg in given or k.arg not in params:
                return None
            given[k.arg] = k.value
        defaults = {}
        for p_, d in zip(a.args[len(a.args) - len(a.defaults):], a.defaults):
            defaults[p_.arg] = d
        for p_, d in zip(a.kwonlyargs, a.kw_defaults):
            if d is not None:
                defaults[p_.arg] = d
        out: list = []
        for p_ in list(given) + [q_ for q_ in params if q_ not in given]:  # Python's evaluation order of the arguments
            v = given.get(p_, defaults.get(p_))
            if v is None:
                return None
            out.append(ast.copy_location(ast.Assign(targets=[ast.Name(id=p_ + suffix, ctx=ast.Store())], value=v), call))
        for x in prefix:
            out.append(Ren().visit(copy.deepcopy(x)))
        new_loop = Ret2Break().visit(Ren().visit(copy.deepcopy(loop)))
        if mode == "T1":
            out.append(new_loop)
            out.append(ast.copy_location(ast.Assign(targets=[s.targets[0]], value=ast.Name(id=tail.value.id + suffix, ctx=ast.Load())), s))
        else:
            new_loop.orelse = list(s.body)
            out.append(new_loop)
        for x in out:
            ast.fix_missing_locations(x)
        self.ev.deep_inlined.add(f.qual)
        self.s.calls.append(CallRec(("expanded", f.qual), (), (), st.cond, tuple(self.loop_stack), call, ("expanded", f.qual),
                                    tuple(self.try_stack), True))  # keeps the call-graph edge; the body is analysed in place
        return out

    def _captures(self, f: FuncInfo, locals_: set) -> bool:
        """Would a name the helper reads from its module (not one of its locals) be captured by a local of the caller after the
        helper's statements are moved into the caller?"""
        if self.f is None:
            return True
        free = {n.id for n in ast.walk(f.node) if isinstance(n, ast.Name) and isinstance(n.ctx, ast.Load) and n.id not in locals_}
        mine = set(self.f.params()) | set(_assigned_names(self.f))
        g = self.f.parent
        while g is not None:  # enclosing functions' locals are visible to a nested caller too
            mine |= set(g.params()) | set(_assigned_names(g))
            g = g.parent
        return bool(free & mine)

    def _bind_and_rename(self, f: FuncInfo, call: ast.Call, recv_expr, body: list, st: State, finish) -> Optional[list]:
        """Statements `p' = arg` for every parameter of f followed by a renamed-apart copy of `body`."""
        import copy
        a = f.node.args
        params = [p_.arg for p_ in a.args + a.kwonlyargs]
        locals_ = set(params)
        for n in ast.walk(f.node):
            if isinstance(n, ast.Name) and isinstance(n.ctx, (ast.Store, ast.Del)):
                locals_.add(n.id)
        if self._captures(f, locals_):
            return None
        self.ev._expand_counter = getattr(self.ev, "_expand_counter", 0) + 1
        suffix = f"__{f.name.strip('_')}{self.ev._expand_counter}"

        class Ren(ast.NodeTransformer):
            def visit_Name(self, n):
                if n.id in locals_:
                    return ast.copy_location(ast.Name(id=n.id + suffix, ctx=n.ctx), n)
                return n
        given: dict = {}
        pos = list(a.args)
        if recv_expr is not None:
            if not pos:
                return None
            given[pos[0].arg] = recv_expr
            pos = pos[1:]
        elif f.kind in ("method", "classmethod"):
            return None
        if len(call.args) > len(pos):
            return None
        for p_, v in zip(pos, call.args):
            given[p_.arg] = v
        for k in call.keywords:
            if k.arg in given or k.arg not in params:
                return None
            given[k.arg] = k.value
        defaults = {}
        for p_, d in zip(a.args[len(a.args) - len(a.defaults):], a.defaults):
            defaults[p_.arg] = d
        for p_, d in zip(a.kwonlyargs, a.kw_defaults):
            if d is not None:
                defaults[p_.arg] = d
        out: list = []
        # bindings in Python's evaluation order: receiver, positional arguments, keyword arguments as written, then defaults
        order = list(given) + [p_ for p_ in params if p_ not in given]
        if set(order) != set(params):
            return None
        for p_ in order:
            v = given.get(p_, defaults.get(p_))
            if v is None:
                return None
            out.append(ast.copy_location(ast.Assign(targets=[ast.Name(id=p_ + suffix, ctx=ast.Store())], value=v), call))
        for x in body:
            out.append(Ren().visit(copy.deepcopy(x)))
        finish(out, Ren)
        for x in out:
            ast.fix_missing_locations(x)
        self.ev.deep_inlined.add(f.qual)
        self.s.calls.append(CallRec(("expanded", f.qual), (), (), st.cond, tuple(self.loop_stack), call, ("expanded", f.qual),
                                    tuple(self.try_stack), True))
        return out

    def _resolve_helper(self, fn: ast.AST, st: State):
        """(FuncInfo, receiver expression | None) for the callee expression of a call, without recording anything."""
        f = None
        recv_expr = None
        if isinstance(fn, ast.Name):
            if st.env.get(fn.id) is None:
                r = self.prog.resolve_name(self.m, fn.id)
                t = self.ref_to_term(r) if r is not None else None
                if t is not None and t[0] == "func":
                    f = self.prog.functions.get(t[1])
        elif isinstance(fn, ast.Attribute) and isinstance(fn.value, ast.Name):
            recv = self.name(fn.value.id, st)
            b = self.attr(recv, fn.attr, fn)
            if b[0] == "func":
                f = self.prog.functions.get(b[1])
            else:
                res = self.resolve_method(recv, fn.attr)
                if res is not None:
                    f = res[0]
            if f is not None and f.kind in ("method", "classmethod") and recv[0] in ("self", "clsparam", "param"):
                recv_expr = fn.value
        return f, recv_expr

    def _fuse_generator(self, s: ast.For, st: State) -> Optional[list]:
        """`for T in G(args): B` where the private helper G is a generator `prefix; loop{... yield V ...}` with a single yield
        directly in its single loop: fused into  prefix; loop{... T = V; B ...}.  Equivalent because a generator runs in lock
        step with its consumer; requires that B has no `continue` of the consumer loop (it would skip the rest of the
        generator's iteration in the fused form) and no else clause, and that G does nothing after its loop."""
        import copy
        if not self.ev.deep_inline_in or s.orelse or not isinstance(s.iter, ast.Call):
            return None
        call = s.iter
        if any(isinstance(a, ast.Starred) for a in call.args) or any(k.arg is None for k in call.keywords):
            return None
        f, recv_expr = self._resolve_helper(call.func, st)
        if f is None or isinstance(f.node, ast.Lambda) or f.module is not self.m or not self._deep(f):
            return None
        if not (f.name.startswith("_") and not f.name.startswith("__")) or f.nested or f.nested_classes:
            return None
        a = f.node.args
        if a.vararg or a.kwarg or a.posonlyargs:
            return None
        body = [b for b in f.node.body if not (isinstance(b, ast.Expr) and isinstance(b.value, ast.Constant))]
        if not body or not isinstance(body[-1], (ast.For, ast.While)) or body[-1].orelse:
            return None
        loop, prefix = body[-1], body[:-1]
        bad = (ast.Return, ast.Yield, ast.YieldFrom, ast.Await, ast.FunctionDef, ast.Lambda, ast.ClassDef, ast.Global, ast.Nonlocal)
        if any(isinstance(n, bad) for p_ in prefix for n in ast.walk(p_)):
            return None
        # the single yield: a statement of the loop body or of an if/elif/else arm inside it (not inside a nested loop / try / with)
        def find_yield(stmts):
            hits = []
            for i, x in enumerate(stmts):
                if isinstance(x, ast.Expr) and isinstance(x.value, ast.Yield):
                    hits.append((stmts, i))
                elif isinstance(x, ast.If):
                    hits += find_yield(x.body) + find_yield(x.orelse)
            return hits
        ys = find_yield(loop.body)
        n_y = sum(isinstance(n, (ast.Yield, ast.YieldFrom)) for n in ast.walk(loop))
        if len(ys) != 1 or n_y != 1 or ys[0][0][ys[0][1]].value.value is None:
            return None
        if any(isinstance(n, (ast.Return, ast.Await, ast.Lambda, ast.FunctionDef, ast.ClassDef, ast.Try, ast.With)) for n in ast.walk(loop)):
            return None
        # the consumer body: no `continue` that targets the consumer loop
        def has_continue(stmts):
            for x in stmts:
                if isinstance(x, ast.Continue):
                    return True
                if isinstance(x, (ast.For, ast.While, ast.FunctionDef, ast.ClassDef)):
                    continue
                for fld in ("body", "orelse", "handlers", "finalbody"):
                    sub = getattr(x, fld, None)
                    if isinstance(sub, list):
                        if has_continue([h for h in sub if isinstance(h, ast.stmt)] + [b for h in sub if isinstance(h, ast.ExceptHandler) for b in h.body]):
                            return True
            return False
        if has_continue(s.body):
            return None
        params = [p_.arg for p_ in a.args + a.kwonlyargs]
        locals_ = set(params)
        for n in ast.walk(f.node):
            if isinstance(n, ast.Name) and isinstance(n.ctx, (ast.Store, ast.Del)):
                locals_.add(n.id)
        if self._captures(f, locals_):
            return None
        self.ev._expand_counter = getattr(self.ev, "_expand_counter", 0) + 1
        suffix = f"__{f.name.strip('_')}{self.ev._expand_counter}"

        class Ren(ast.NodeTransformer):
            def visit_Name(self, n):
                if n.id in locals_:
                    return ast.copy_location(ast.Name(id=n.id + suffix, ctx=n.ctx), n)
                return n
        given: dict = {}
        pos = list(a.args)
        if recv_expr is not None:
            if not pos:
                return None
            given[pos[0].arg] = recv_expr
            pos = pos[1:]
        elif f.kind in ("method", "classmethod"):
            return None
        if len(call.args) > len(pos):
            return None
        for p_, v in zip(pos, call.args):
            given[p_.arg] = v
        for k in call.keywords:
            if k.arg in given or k.arg not in params:
                return None
            given[k.arg] = k.value
        defaults = {}
        for p_, d in zip(a.args[len(a.args) - len(a.defaults):], a.defaults):
            defaults[p_.arg] = d
        for p_, d in zip(a.kwonlyargs, a.kw_defaults):
            if d is not None:
                defaults[p_.arg] = d
        out: list = []
        for p_ in list(given) + [q_ for q_ in params if q_ not in given]:  # Python's evaluation order of the arguments
            v = given.get(p_, defaults.get(p_))
            if v is None:
                return None
            out.append(ast.copy_location(ast.Assign(targets=[ast.Name(id=p_ + suffix, ctx=ast.Store())], value=v), call))
        for x in prefix:
            out.append(Ren().visit(copy.deepcopy(x)))
        new_loop = Ren().visit(copy.deepcopy(loop))
        ys2 = find_yield(new_loop.body)
        lst, i = ys2[0]
        yv = lst[i].value.value
        bind = ast.copy_location(ast.Assign(targets=[copy.deepcopy(s.target)], value=yv), s)
        lst[i:i + 1] = [bind] + list(s.body)
        out.append(new_loop)
        for x in out:
            ast.fix_missing_locations(x)
        self.ev.deep_inlined.add(f.qual)
        self.s.calls.append(CallRec(("expanded", f.qual), (), (), st.cond, tuple(self.loop_stack), call, ("expanded", f.qual),
                                    tuple(self.try_stack), True))  # keeps the call-graph edge; the body is analysed in place
        return out

    @staticmethod
    def _unconditional_calls(e: Optional[ast.AST]) -> set:
        """Call nodes of the expression that are evaluated whenever the expression is (not under and/or, a conditional
        expression, a comparison chain, a comprehension or a lambda), in evaluation order irrelevant here."""
        out: set = set()

        def go(n):
            if n is None:
                return
            if isinstance(n, ast.Call):
                out.add(id(n))
                go(n.func)
                for a in n.args:
                    go(a)
                for k in n.keywords:
                    go(k.value)
            elif isinstance(n, ast.BinOp):
                go(n.left)
                go(n.right)
            elif isinstance(n, ast.UnaryOp):
                go(n.operand)
            elif isinstance(n, ast.Compare):
                go(n.left)
                if len(n.ops) == 1:
                    go(n.comparators[0])
            elif isinstance(n, (ast.Attribute, ast.Starred)):
                go(n.value)
            elif isinstance(n, ast.Subscript):
                go(n.value)
                go(n.slice)
            elif isinstance(n, (ast.Tuple, ast.List, ast.Set)):
                for x in n.elts:
                    go(x)
            elif isinstance(n, ast.Dict):
                for x in list(n.keys) + list(n.values):
                    go(x)
            elif isinstance(n, ast.JoinedStr):
                for x in n.values:
                    go(x)
            elif isinstance(n, ast.FormattedValue):
                go(n.value)
            elif isinstance(n, ast.Slice):
                go(n.lower)
                go(n.upper)
                go(n.step)
            elif isinstance(n, ast.BoolOp):
                go(n.values[0])
            elif isinstance(n, ast.IfExp):
                go(n.test)
        go(e)
        return out

    def stmt(self, s: ast.AST, st: State) -> Optional[State]:
        if self.ev.deep_inline_in:
            e_ = s.value if isinstance(s, (ast.Assign, ast.AnnAssign, ast.AugAssign, ast.Return, ast.Expr)) else \
                s.test if isinstance(s, ast.If) else s.exc if isinstance(s, ast.Raise) else None
            self._uncond = self._unconditional_calls(e_)
        if self.ev.deep_inline_in and isinstance(s, (ast.Assign, ast.If, ast.Return)):
            blk = self._expand_loop_helper(s, st)
            if blk is not None:
                return self.block(blk, st)
        if self.ev.deep_inline_in and isinstance(s, ast.For):
            blk = self._fuse_generator(s, st)
            if blk is not None:
                return self.block(blk, st)
        if isinstance(s, ast.Expr):
            if isinstance(s.value, ast.Constant):
                return st  # docstring / ellipsis
            self.expr(s.value, st, stmt_ctx=True)
            return st
        if isinstance(s, ast.Assign):
            v = self.expr(s.value, st, stmt_ctx="value")
            for t in s.targets:
                self.assign(t, v, st, s)
            return st
        if isinstance(s, ast.AnnAssign):
            if s.value is not None:
                v = self.expr(s.value, st, stmt_ctx="value")
                self.assign(s.target, v, st, s)
            return st
        if isinstance(s, ast.AugAssign):
            cur = self.expr(_as_load(s.target), st)
            v = self.expr(s.value, st)
            op = _BINOPS.get(type(s.op), "?")
            nv = self.mk_binop(op, cur, v)
            if isinstance(s.target, ast.Name):
                # `x += [..]` on a list (dict |=, set |=, ...) is an in-place mutation of the object x names -- possibly an alias of
                # module/class-level state or of a parameter -- before it is a rebinding of x
                inplace = v[0] in ("list", "dict", "set") or (v[0] == "comp" and v[1] in ("list", "set", "dict")) or \
                    cur[0] in ("list", "dict", "set") or (cur[0] == "call" and cur[1] in (("builtin", "list"), ("builtin", "dict"), ("builtin", "set")))
                if not inplace:
                    try:
                        ty = self.ev.types.type_of(cur, self)
                    except Exception:
                        ty = None
                    inplace = ty is not None and (ty[0] in ("seq", "dict", "set") or ty in (("ext", "builtins.list"), ("ext", "builtins.dict"),
                                                                                       ("ext", "builtins.set")))
                if inplace:
                    self.effect("mutcall", cur, f"__i{op}__", (v,), st, s)
                self.bind(s.target.id, nv, st, s)
            elif isinstance(s.target, ast.Attribute):
                self.effect("aug_attr", self.expr(s.target.value, st), s.target.attr, nv, st, s)
            elif isinstance(s.target, ast.Subscript):
                self.effect("aug_sub", self.expr(s.target.value, st), self.index(s.target.slice, st), nv, st, s)
            return st
        if isinstance(s, ast.Return):
            v = self.expr(s.value, st, stmt_ctx="value") if s.value is not None else ("const", None)
            self._exit("ret", v, st, s)
            return None
        if isinstance(s, ast.Raise):
            if s.exc is None:
                v = ("reraise",)
            else:
                v = self.expr(s.exc, st)
            self._exit("raise", v, st, s)
            return None
        if isinstance(s, ast.Pass):
            return st
        if isinstance(s, ast.If):
            return self.if_(s, st)
        if isinstance(s, (ast.For, ast.While)):
            return self.loop(s, st)
        if isinstance(s, ast.Try):
            return self.try_(s, st)
        if isinstance(s, ast.With):
            # `with contextlib.suppress(E, ...): body`  ==  `try: body  except (E, ...): pass`   (exact: suppress.__exit__ returns
            # True for subclasses of the listed classes only, and nothing else happens on entry or exit)
            if len(s.items) == 1 and s.items[0].optional_vars is None and isinstance(s.items[0].context_expr, ast.Call) and \
                    not s.items[0].context_expr.keywords and s.items[0].context_expr.args and \
                    not any(isinstance(a_, ast.Starred) for a_ in s.items[0].context_expr.args):
                fn_ = s.items[0].context_expr.func
                ft = self.expr(fn_, st) if isinstance(fn_, (ast.Name, ast.Attribute)) else None
                if ft == ("ext", "contextlib.suppress"):
                    ca = s.items[0].context_expr.args
                    ty = ca[0] if len(ca) == 1 else ast.Tuple(elts=list(ca), ctx=ast.Load())
                    key = ("suppress", s)
                    t_ = self._desugared.get(key)
                    if t_ is None:
                        h_ = ast.ExceptHandler(type=ty, name=None, body=[ast.copy_location(ast.Pass(), s)])
                        t_ = ast.Try(body=s.body, handlers=[ast.copy_location(h_, s)], orelse=[], finalbody=[])
                        ast.copy_location(t_, s)
                        ast.fix_missing_locations(t_)
                        t_._origin = s  # the statement it stands for (rules that ask where the try sits in the tree)
                        self._desugared[key] = t_
                    return self.try_(t_, st)
            for it in s.items:
                v = self.expr(it.context_expr, st)
                # a context manager may swallow exceptions raised in its body (an __exit__ returning True): only those known not to
                # are modelled as "enter, run the body, leave"
                known = v[0] == "call" and v[1] in (("builtin", "open"), ("ext", "contextlib.nullcontext"), ("ext", "io.open"),
                                                    ("ext", "threading.Lock"), ("ext", "threading.RLock"))
                if not known:
                    self.s.unsupported.append(("With(unknown context manager)", getattr(s, "lineno", 0)))
                if it.optional_vars is not None:
                    self.assign(it.optional_vars, ("with", v), st, s)
            return self.block(s.body, st)
        if isinstance(s, ast.Match):
            d_ = self._desugar_match(s)
            if d_ is not None:
                return self.block(d_, st)
        if isinstance(s, ast.Assert):
            c = self.expr(s.test, st)
            a, p = literal(c)
            bad = State(st.env, st.cond + ((a, not p),))
            self._exit("raise", ("call", ("builtin", "AssertionError"), (), ()), bad, s)
            return State(st.env, st.cond + ((a, p),))
        if isinstance(s, ast.Break):
            self._exit("break", ("const", None), st, s)
            self._loop_rec_break(st)
            return None
        if isinstance(s, ast.Continue):
            self._exit("continue", ("const", None), st, s)
            self._loop_rec_continue(st)
            return None
        if isinstance(s, (ast.FunctionDef, ast.AsyncFunctionDef)):
            fi = self.f.nested.get(s.name) if self.f is not None else None
            if fi is None or fi.node is not s:
                # overloads or redefinitions: find by node
                fi = next((x for x in self.prog.functions.values() if x.node is s), None)
            if fi is not None and not fi.is_overload:
                st.env.vars[s.name] = ("closure", fi.qual, id(st.env))
                self._closures[id(st.env)] = st.env
                self.s.defs[s.name] = st.env  # live environment of the enclosing function at the def
            return st
        if isinstance(s, ast.ClassDef):
            ci = next((c for c in self.prog.classes.values() if c.node is s), None)
            if ci is not None:
                st.env.vars[s.name] = ("class", ci.qual)
            return st
        if isinstance(s, ast.Import):
            for a in s.names:
                if a.asname:
                    st.env.vars[a.asname] = self.ref_to_term(self.prog.resolve_dotted(a.name))
                else:
                    top = a.name.split(".")[0]
                    st.env.vars[top] = self.ref_to_term(self.prog.resolve_dotted(top))
            return st
        if isinstance(s, ast.ImportFrom):
            for a in s.names:
                r = self.prog.resolve_dotted(f"{s.module}.{a.name}")
                st.env.vars[a.asname or a.name] = self.ref_to_term(r) if r else ("ext", f"{s.module}.{a.name}")
            return st
        if isinstance(s, ast.Delete):
            for t in s.targets:
                if isinstance(t, ast.Subscript):
                    self.effect("del", self.expr(t.value, st), self.index(t.slice, st), None, st, s)
                elif isinstance(t, ast.Attribute):
                    self.effect("del", self.expr(t.value, st), t.attr, None, st, s)
                elif isinstance(t, ast.Name):
                    st.env.vars.pop(t.id, None)
            return st
        if isinstance(s, (ast.Global, ast.Nonlocal)):
            self.global_names.update(s.names)
            return st
        self.s.unsupported.append((type(s).__name__, getattr(s, "lineno", 0)))
        return st

    _closures: dict = {}
    @property
    def _desugared(self) -> dict:
        """(kind, ast node) -> desugared statement(s), per Evaluator (= per parsed tree).  Keyed by the node object itself, which
        keeps it alive: an id() could be reused by a node of another tree parsed later in the same process."""
        return self.ev._desugar_cache

    def _desugar_match(self, s: "ast.Match") -> Optional[list]:
        """`match E: case P1: B1 ...` as `_m = E; if T1: B1 elif ...` for patterns whose test is an ordinary expression: literal and
        dotted-name values (==), None/True/False (is), class patterns without sub-patterns (isinstance; for the builtin types too),
        or-patterns of those, a wildcard, a bare capture name, `P as name`, and guards.  Exact for these forms (PEP 634); anything
        else (sequence, mapping, class patterns with arguments, star patterns) is left unsupported."""
        got = self._desugared.get(("match", s))
        if got is not None:
            return got or None
        tmp = f"_match_subject_{getattr(s, 'lineno', 0)}"

        def subj():
            return ast.Name(id=tmp, ctx=ast.Load())

        def test(p):
            """-> (test expr | None for always-true, [(name to bind)])"""
            if isinstance(p, ast.MatchValue):
                return ast.Compare(left=subj(), ops=[ast.Eq()], comparators=[p.value]), []
            if isinstance(p, ast.MatchSingleton):
                return ast.Compare(left=subj(), ops=[ast.Is()], comparators=[ast.Constant(value=p.value)]), []
            if isinstance(p, ast.MatchClass) and not p.patterns and not p.kwd_patterns:
                return ast.Call(func=ast.Name(id="isinstance", ctx=ast.Load()), args=[subj(), p.cls], keywords=[]), []
            if isinstance(p, ast.MatchAs):
                if p.pattern is None:
                    return None, ([p.name] if p.name else [])
                t_, b_ = test(p.pattern)
                return t_, b_ + ([p.name] if p.name else [])
            if isinstance(p, ast.MatchOr):
                parts = [test(q) for q in p.patterns]
                if any(b_ for _, b_ in parts):
                    raise ValueError
                if any(t_ is None for t_, _ in parts):
                    return None, []
                return ast.BoolOp(op=ast.Or(), values=[t_ for t_, _ in parts]), []
            raise ValueError
        try:
            chain: list = []
            for c in reversed(s.cases):
                t_, binds = test(c.pattern)
                body = [ast.Assign(targets=[ast.Name(id=n_, ctx=ast.Store())], value=subj()) for n_ in binds] + list(c.body)
                if c.guard is not None:
                    if binds:
                        raise ValueError  # the guard may read the captured name before our assignment: keep it simple
                    t_ = c.guard if t_ is None else ast.BoolOp(op=ast.And(), values=[t_, c.guard])
                if t_ is None:
                    chain = body
                else:
                    chain = [ast.If(test=t_, body=body, orelse=chain)]
        except ValueError:
            self._desugared[("match", s)] = []
            return None
        out = [ast.Assign(targets=[ast.Name(id=tmp, ctx=ast.Store())], value=s.subject)] + chain
        for n_ in out:
            ast.copy_location(n_, s)
            ast.fix_missing_locations(n_)
        self._desugared[("match", s)] = out
        return out

    def bind(self, name: str, v: Term, st: State, node: ast.AST) -> None:
        if name in self.global_names:
            self.effect("global_store", ("gvar", f"{self.m.name}.{name}"), name, v, st, node)
        st.env.vars[name] = v

    def assign(self, t: ast.AST, v: Term, st: State, node: ast.AST) -> None:
        if isinstance(t, ast.Name):
            self.bind(t.id, v, st, node)
        elif isinstance(t, (ast.Tuple, ast.List)):
            for k, e in enumerate(t.elts):
                if isinstance(e, ast.Starred):
                    self.assign(e.value, ("starproj", v, k), st, node)
                else:
                    self.assign(e, mk_proj(v, k), st, node)
        elif isinstance(t, ast.Attribute):
            base = self.expr(t.value, st)
            self.effect("store_attr", base, t.attr, v, st, node)
            st.env.vars[("@attr", base, t.attr)] = v  # later reads of the same attribute in this function see v
        elif isinstance(t, ast.Subscript):
            self.effect("store_sub", self.expr(t.value, st), self.index(t.slice, st), v, st, node)
        else:
            self.s.unsupported.append(("assign-target", getattr(t, "lineno", 0)))

    def effect(self, kind: str, target: Term, key: Any, value: Any, st: State, node: ast.AST) -> None:
        self.s.effects.append(Effect(kind, target, key, value, st.cond, tuple(self.loop_stack), node,
                                     tuple(self.try_stack)))

    # ---- if
    def _option_lookup_if(self, s: ast.If, st: State) -> Optional[ast.If]:
        """`if (x := D.get(k)) is not None: B else: E`  ==  `if k in D: x = D[k]; B  else: x = None; E`  when no value of D is None
        (D evaluates to a dict display / comprehension whose values are tuples, containers, strings or non-None constants) and D
        and k are plain names / attribute chains (evaluating them twice is the same as once)."""
        t = s.test
        if not (isinstance(t, ast.Compare) and len(t.ops) == 1 and isinstance(t.ops[0], (ast.Is, ast.IsNot)) and
                isinstance(t.comparators[0], ast.Constant) and t.comparators[0].value is None and isinstance(t.left, ast.NamedExpr)):
            return None
        ne = t.left
        call = ne.value
        if not (isinstance(call, ast.Call) and isinstance(call.func, ast.Attribute) and call.func.attr == "get" and len(call.args) == 1
                and not call.keywords and isinstance(ne.target, ast.Name)):
            return None

        def plain(e_):
            return isinstance(e_, ast.Name) or (isinstance(e_, ast.Attribute) and plain(e_.value))
        D, k = call.func.value, call.args[0]
        if not (plain(D) and plain(k)):
            return None
        key = ("optget", s)
        if key in self._desugared:
            return self._desugared[key] or None
        dt = self.expr(D, st)

        def non_none(v):
            return v[0] in ("tuple", "list", "dict", "set", "fstr") or (v[0] == "const" and v[1] is not None) or \
                (v[0] == "call" and v[1][0] in ("class", "clsparam"))
        ok = False
        if dt[0] == "dict":
            ok = bool(dt[1]) and all(non_none(v) for _, v in dt[1])
        elif dt[0] == "comp" and dt[1] == "dict" and dt[2][0] == "tuple" and len(dt[2][1]) == 2:
            ok = non_none(dt[2][1][1])
        if not ok:
            self._desugared[key] = []
            return None
        import copy
        x = ne.target.id
        hit = ast.Assign(targets=[ast.Name(id=x, ctx=ast.Store())], value=ast.Subscript(value=copy.deepcopy(D), slice=copy.deepcopy(k), ctx=ast.Load()))
        miss = ast.Assign(targets=[ast.Name(id=x, ctx=ast.Store())], value=ast.Constant(value=None))
        some, none = (s.body, s.orelse) if isinstance(t.ops[0], ast.IsNot) else (s.orelse, s.body)
        new = ast.If(test=ast.Compare(left=copy.deepcopy(k), ops=[ast.In()], comparators=[copy.deepcopy(D)]),
                     body=[hit] + list(some), orelse=[miss] + list(none))
        ast.copy_location(new, s)
        for n_ in (hit, miss):
            ast.copy_location(n_, s)
        ast.fix_missing_locations(new)
        self._desugared[key] = new
        return new

    def if_(self, s: ast.If, st: State) -> Optional[State]:
        alt = self._option_lookup_if(s, st)
        if alt is not None:
            s = alt
        c = self.expr(s.test, st)
        if c[0] == "const":
            return self.block(s.body if c[1] else s.orelse, st)
        a, p = literal(c)
        s1 = State(st.env.copy(), st.cond + ((a, p),))
        s2 = State(st.env.copy(), st.cond + ((a, not p),))
        o1 = self.block(s.body, s1)
        o2 = self.block(s.orelse, s2)
        return self.merge(st, c, o1, o2)

    def merge(self, st: State, c: Term, o1: Optional[State], o2: Optional[State]) -> Optional[State]:
        if o1 is None and o2 is None:
            return None
        if o1 is None:
            return o2
        if o2 is None:
            return o1
        env = Env(st.env.parent)
        names = list(o1.env.vars.keys()) + [n for n in o2.env.vars if n not in o1.env.vars]
        for n in names:
            v1 = o1.env.vars.get(n)
            v2 = o2.env.vars.get(n)
            if v1 is None:
                v1 = ("unbound", n)
            if v2 is None:
                v2 = ("unbound", n)
            env.vars[n] = mk_ite(c, v1, v2)
        # path condition of the join: the disjunction of what each surviving branch accumulated
        k = len(st.cond)
        if o1.cond[:k] == st.cond and o2.cond[:k] == st.cond:
            e1, e2 = o1.cond[k:], o2.cond[k:]
            if len(e1) == 1 and len(e2) == 1 and e1[0][0] == e2[0][0] and e1[0][1] != e2[0][1]:
                cond = st.cond
            else:
                def conj(es):
                    ts = tuple(a if p else mk_not(a) for a, p in es)
                    if not ts:
                        return ("const", True)
                    return ts[0] if len(ts) == 1 else ("and", ts)
                d1, d2 = conj(e1), conj(e2)
                if d1 == ("const", True) or d2 == ("const", True):
                    cond = st.cond
                else:
                    cond = st.cond + ((("or", (d1, d2)), True),)
        else:
            cond = tuple(x for x, y in zip(o1.cond, o2.cond) if x == y)
        return State(env, cond)

    # ---- loops
    def loop(self, s, st: State) -> Optional[State]:
        self.ev._loop_counter += 1
        fq = self.f.qual if self.f is not None else self.m.name
        lid = f"L{len(self.s.loops) + 1}@{fq}"
        is_for = isinstance(s, ast.For)
        assigned = set()
        for sub in ast.walk(ast.Module(body=list(s.body) + list(s.orelse), type_ignores=[])):
            if isinstance(sub, (ast.Assign, ast.AnnAssign, ast.AugAssign)):
                tg = sub.targets if isinstance(sub, ast.Assign) else [sub.target]
                for t in tg:
                    assigned.update(target_names(t))
            elif isinstance(sub, (ast.For, ast.comprehension)) and not isinstance(sub, ast.comprehension):
                assigned.update(target_names(sub.target))
            elif isinstance(sub, ast.NamedExpr):
                assigned.update(target_names(sub.target))
            elif isinstance(sub, ast.With):
                for it in sub.items:
                    if it.optional_vars is not None:
                        assigned.update(target_names(it.optional_vars))
        # do not descend into nested defs for assigned names -- approximation: names of nested defs' locals may be
        # included, which only makes more variables opaque.
        tnames = target_names(s.target) if is_for else []
        it_term = self.expr(s.iter, st) if is_for else None
        info = LoopInfo(lid, "for" if is_for else "while", s, s.target if is_for else None, it_term, None, {}, [], [],
                        self.loop_stack[-1] if self.loop_stack else None, has_else=bool(s.orelse),
                        depth=len(self.loop_stack), cond=st.cond)
        self.s.loops[lid] = info
        body_env = st.env.copy()
        inits = {}
        for n in sorted(assigned):
            if n in tnames:
                continue
            inits[n] = st.env.get(n) or ("unbound", n)
            body_env.vars[n] = ("lv", lid, n)
        if is_for:
            elem = ("elem", lid)
            self._bind_target(s.target, elem, body_env)
        self.loop_stack.append(lid)
        bst = State(body_env, st.cond + ((("inloop", lid), True),))
        if not is_for:
            info.test = self.expr(s.test, bst)
            a, p = literal(info.test)
            bst = State(body_env, bst.cond + ((a, p),))
        out = self.block(s.body, bst)
        self.loop_stack.pop()
        info.body_falls = out is not None
        if out is not None:
            info.fall_cond = out.cond
        for n in sorted(assigned):
            if n in tnames:
                continue
            upd = out.env.vars.get(n) if out is not None else None
            info.carried[n] = (inits[n], upd)
        # after the loop
        after = st.env.copy()
        for n in sorted(assigned):
            after.vars[n] = ("la", lid, n)
        for n in tnames:
            after.vars[n] = ("la", lid, n)
        ast_ = State(after, st.cond)
        if s.orelse:
            self.loop_stack.append(lid + ":else")
            if not info.break_states:
                # no break leaves this loop: its else clause runs whenever the loop ends, so it is plain code after the loop
                self.loop_stack.pop()
                return self.block(s.orelse, State(after, st.cond))
            est = State(after.copy(), st.cond + ((("nobreak", lid), True),))
            eo = self.block(s.orelse, est)
            self.loop_stack.pop()
            if eo is None:
                # else always leaves: code after the loop is reached only via break
                if not info.break_states:
                    return None
                return State(after, st.cond + ((("nobreak", lid), False),))
            # merge: variables assigned in else become opaque
            for n, v in eo.env.vars.items():
                if after.vars.get(n) != v:
                    after.vars[n] = mk_ite(("nobreak", lid), v, after.vars.get(n, ("unbound", n)))
        return ast_

    def _bind_target(self, t: ast.AST, v: Term, env: Env) -> None:
        if isinstance(t, ast.Name):
            env.vars[t.id] = v
        elif isinstance(t, (ast.Tuple, ast.List)):
            for k, e in enumerate(t.elts):
                self._bind_target(e, mk_proj(v, k), env)

    def _loop_rec_break(self, st: State) -> None:
        lid = next((l for l in reversed(self.loop_stack) if not l.endswith(":else")), None)
        if lid and lid in self.s.loops:
            self.s.loops[lid].break_states.append((st.cond, dict(st.env.vars)))

    def _loop_rec_continue(self, st: State) -> None:
        lid = next((l for l in reversed(self.loop_stack) if not l.endswith(":else")), None)
        if lid and lid in self.s.loops:
            self.s.loops[lid].continue_updates.append((st.cond, dict(st.env.vars)))

    # ---- try
    def try_(self, s: ast.Try, st: State) -> Optional[State]:
        tid = f"T{len(self.s.trys) + 1}"
        handlers = []
        for h in s.handlers:
            if h.type is None:
                handlers.append(None)
            elif isinstance(h.type, ast.Tuple):
                handlers.append(tuple(self.expr(e, st) for e in h.type.elts))
            else:
                handlers.append((self.expr(h.type, st),))
        self.s.trys[tid] = TryInfo(tid, s, handlers)
        self.try_stack.append((tid, tuple(handlers)))
        body_st = State(st.env.copy(), st.cond)
        n_exits_before = len(self.s.exits)
        out = self.block(s.body, body_st)
        self.try_stack.pop()
        # raises inside the body are potentially handled: annotate
        for e in self.s.exits[n_exits_before:]:
            if e.kind == "raise" and e.handled is None:
                e.handled = tid
        if out is not None:
            out = State(out.env, out.cond + ((("raises", tid), False),))
            if s.orelse:
                out = self.block(s.orelse, out)
        results = []  # [(handler index | None for the normal path, State)]
        if out is not None:
            results.append((None, out))
        for k, h in enumerate(s.handlers):
            hst = State(st.env.copy(), st.cond + ((("raises", tid), True), (("handler", tid, k), True)))
            # variables assigned in the try body are uncertain in the handler
            for sub in ast.walk(ast.Module(body=list(s.body), type_ignores=[])):
                if isinstance(sub, (ast.Assign, ast.AnnAssign, ast.AugAssign)):
                    tg = sub.targets if isinstance(sub, ast.Assign) else [sub.target]
                    for t in tg:
                        for n in target_names(t):
                            hst.env.vars[n] = ("maybe", tid, n, st.env.get(n) or ("unbound", n))
            if h.name:
                hst.env.vars[h.name] = ("exc", tid, k)
            ho = self.block(h.body, hst)
            if ho is not None:
                results.append((k, ho))
        if not results:
            final = None
        elif len(results) == 1:
            final = results[0][1]
        else:
            env = Env(st.env.parent)
            names = []
            for _, r in results:
                for n in r.env.vars:
                    if n not in names:
                        names.append(n)
            for n in names:
                v = results[-1][1].env.vars.get(n, ("unbound", n))
                for k, r in reversed(results[:-1]):
                    rv = r.env.vars.get(n, ("unbound", n))
                    atom = ("raises", tid) if k is None else ("handler", tid, k)
                    v = mk_ite(atom, v, rv) if k is None else mk_ite(atom, rv, v)
                env.vars[n] = v
            final = State(env, st.cond)
        if s.finalbody and any(isinstance(n_, (ast.Return, ast.Break, ast.Continue)) for b_ in s.finalbody for n_ in ast.walk(b_)):
            # a `finally` clause that leaves by return / break / continue discards the exception (or return value) in flight: the
            # exits recorded for the try body would not be the function's exits
            self.s.unsupported.append(("Try(finally that leaves the block)", getattr(s, "lineno", 0)))
        if s.finalbody and final is not None:
            final = self.block(s.finalbody, final)
        elif s.finalbody:
            self.block(s.finalbody, State(st.env.copy(), st.cond))
        return final

    # ------------------------------------------------------------------ expressions
    def site(self) -> int:
        self.ev._site += 1
        return self.ev._site

    def index(self, n: ast.AST, st: State) -> Term:
        if isinstance(n, ast.Slice):
            return ("slice", self.expr(n.lower, st) if n.lower else ("const", None),
                    self.expr(n.upper, st) if n.upper else ("const", None),
                    self.expr(n.step, st) if n.step else ("const", None))
        return self.expr(n, st)

    def mk_binop(self, op: str, a: Term, b: Term) -> Term:
        if a[0] == "const" and b[0] == "const":
            r = fold_binop(op, a[1], b[1])
            if r is not None:
                return ("const", r)
        return ("binop", op, a, b)

    def ref_to_term(self, r) -> Term:
        if r is None:
            return ("unknown", "unresolved")
        k = r[0]
        if k == "class":
            return ("class", r[1].qual)
        if k == "func":
            return ("func", r[1].qual)
        if k == "modvar":
            return self.modvar(r[1], r[2])
        if k == "classvar":
            return self.classvar(r[1], r[2])
        if k == "module":
            return ("module", r[1])
        if k == "ext":
            return ("ext", r[1])
        if k == "builtin":
            return ("builtin", r[1])
        return ("unknown", str(r))

    def modvar(self, m: ModuleInfo, name: str) -> Term:
        q = f"{m.name}.{name}"
        if q in self.ev.newtypes():
            return ("newtype", q)
        v, a, ln = m.assigns[name]
        if isinstance(v, ast.Call):
            d = self.prog._canon_ext(m, dotted(v.func))
            if d in ("typing.TypeVar",):
                return ("typevar", q)
            if d in ("logging.getLogger",):
                return ("logger", q)
        if isinstance(v, ast.Constant):
            return ("const", v.value)
        def immutable_literal(e_) -> bool:
            if isinstance(e_, ast.Constant):
                return True
            if isinstance(e_, ast.UnaryOp) and isinstance(e_.op, (ast.USub, ast.UAdd)):
                return immutable_literal(e_.operand)
            if isinstance(e_, ast.Tuple):
                return all(immutable_literal(x_) for x_ in e_.elts)
            if isinstance(e_, ast.Call) and all(immutable_literal(a_) for a_ in e_.args) and \
                    all(k_.arg and immutable_literal(k_.value) for k_ in e_.keywords):
                d_ = dotted(e_.func)
                if d_ is None:
                    return False
                if self.prog._canon_ext(m, d_) in ("datetime.timedelta", "operator.attrgetter", "operator.itemgetter"):
                    return True
                r_ = self.prog.resolve_name(m, d_) if "." not in d_ else self.prog.resolve_dotted(self.prog._canon_ext(m, d_))
                t_ = self.ref_to_term(r_) if r_ is not None else None
                return t_ is not None and t_[0] == "newtype"
            return False
        if immutable_literal(v):
            # a module-level name for an immutable value built from literals (`_ZERO = Timestamp(timedelta(0))`) denotes that value
            return self.ev.global_value(m, name)
        return ("gvar", q)

    def classvar(self, c: ClassInfo, name: str) -> Term:
        v, a, ln = c.body_assigns[name]
        if c.is_enum() and v is not None and not name.startswith("_") and name not in c.methods:
            return ("enum", c.qual, name)
        if isinstance(v, ast.Call):
            d = self.prog._canon_ext(c.module, dotted(v.func))
            if d == "typing.TypeVar":
                return ("typevar", f"{c.qual}.{name}")
        if isinstance(v, ast.Constant):
            return ("const", v.value)
        return ("cattr", c.qual, name)

    def name(self, n: str, st: State) -> Term:
        v = st.env.get(n)
        if v is not None:
            return v
        if self.cls_body is not None:
            r = self.prog.resolve_name(self.m, n, self.cls_body)
            if r is not None and r[0] == "classvar" and r[1] is self.cls_body:
                # in a class body a bare name refers to the raw value bound earlier in the body
                vv, a, ln = self.cls_body.body_assigns[n]
                if vv is not None:
                    key = (self.cls_body.qual, "raw", n)
                    if key in self.ev._global_cache:
                        return self.ev._global_cache[key] or ("cattr", self.cls_body.qual, n)
                    self.ev._global_cache[key] = None
                    t = self.expr(vv, State(Env(), ()))
                    self.ev._global_cache[key] = t
                    return t
            if r is not None:
                return self.ref_to_term(r)
        # nested classes of enclosing function
        g = self.f
        while g is not None:
            if n in g.nested_classes:
                return ("class", g.nested_classes[n].qual)
            if n in g.nested and not g.nested[n].is_overload:
                return ("closure", g.nested[n].qual, 0)
            if g is not self.f and (n in g.params() or n in _assigned_names(g)):
                return ("free", n, g.qual)
            g = g.parent
        r = self.prog.resolve_name(self.m, n)
        if r is None:
            return ("unknown", f"name:{n}")
        return self.ref_to_term(r)

    def attr(self, base: Term, a: str, node: Optional[ast.AST] = None) -> Term:
        k = base[0]
        if k == "module":
            r = self.prog.getattr_static(("module", base[1]), a)
            if r is not None:
                return self.ref_to_term(r)
            return ("ext", f"{base[1]}.{a}")
        if k == "ext":
            return ("ext", f"{base[1]}.{a}")
        if k == "class":
            c = self.prog.classes.get(base[1])
            if c is not None:
                r = self.prog.getattr_static(("class", c), a)
                if r is not None:
                    if r[0] == "func":
                        return ("boundcls", r[1].qual, base) if r[1].kind == "classmethod" else ("func", r[1].qual)
                    return self.ref_to_term(r)
                if a == "__name__":
                    return ("const", c.name)
                if a == "__qualname__":
                    return ("const", c.qual.split(".", 2)[-1] if c.qual.count(".") >= 2 else c.name)
        if k == "ite":
            return mk_ite(base[1], self.attr(base[2], a), self.attr(base[3], a))
        if k == "self":
            c = self.prog.classes.get(base[1])
            if c is not None:
                found = c.find_attr(a)
                if found is not None:
                    owner, v, ann = found
                    from .srcmodel import ann_is_classvar
                    is_field = ann is not None and not ann_is_classvar(ann) and owner.is_dataclass()
                    if not is_field and a not in owner.methods and not isinstance(v, ast.Constant):
                        # a class-level object read through the instance: shared by all instances
                        return ("cattr", owner.qual, a)
        return ("attr", base, a)

    def expr(self, n: Optional[ast.AST], st: State, stmt_ctx: bool = False) -> Term:
        if n is None:
            return ("const", None)
        if isinstance(n, ast.Constant):
            if type(n.value) is float:
                # 1000.0 == 1000 in Python, and so would the terms be: a float literal is kept distinguishable, because int / int,
                # int / float and float / float round differently (and a pattern written with an int literal means the int)
                return ("const", n.value, "float")
            return ("const", n.value)
        if isinstance(n, ast.Name):
            return self.name(n.id, st)
        if isinstance(n, ast.Attribute):
            base = self.expr(n.value, st)
            stored = st.env.get(("@attr", base, n.attr))
            if stored is not None:
                return stored
            return self.attr(base, n.attr, n)
        if isinstance(n, ast.Call):
            return self.call(n, st, stmt_ctx)
        if isinstance(n, ast.BinOp):
            return self.mk_binop(_BINOPS.get(type(n.op), "?"), self.expr(n.left, st), self.expr(n.right, st))
        if isinstance(n, ast.UnaryOp):
            v = self.expr(n.operand, st)
            if isinstance(n.op, ast.Not):
                return mk_not(v)
            if isinstance(n.op, ast.USub):
                if v[0] == "const" and isinstance(v[1], (int, float)):
                    return ("const", -v[1])
                return ("unop", "-", v)
            if isinstance(n.op, ast.UAdd):
                return v
            return ("unop", "~", v)
        if isinstance(n, ast.BoolOp):
            vals = [self.expr(v, st) for v in n.values]
            op = "and" if isinstance(n.op, ast.And) else "or"
            flat = []
            for v in vals:
                if v[0] == op:
                    flat += list(v[1])
                else:
                    flat.append(v)
            # constant simplification
            out = []
            for i_, v in enumerate(flat):
                if v[0] == "const" and i_ + 1 < len(flat):
                    # a constant operand that cannot decide the result is skipped -- but only when it is not the last operand:
                    # `x or None` is None (not x) when x is a falsy non-None value such as timedelta(0), 0 or ""
                    if op == "and" and v[1]:
                        continue
                    if op == "or" and not v[1]:
                        continue
                if v[0] == "const":
                    if op == "and" and not v[1] and isinstance(v[1], bool):
                        out.append(v)
                        break
                out.append(v)
            if not out:
                return ("const", op == "and")
            if len(out) == 1:
                return out[0]
            return (op, tuple(out))
        if isinstance(n, ast.Compare):
            left = self.expr(n.left, st)
            parts = []
            for op, r in zip(n.ops, n.comparators):
                right = self.expr(r, st)
                parts.append(mk_cmp(_CMPOPS[type(op)], left, right))
                left = right
            return parts[0] if len(parts) == 1 else ("and", tuple(parts))
        if isinstance(n, ast.IfExp):
            c = self.expr(n.test, st)
            return mk_ite(c, self.expr(n.body, st), self.expr(n.orelse, st))
        if isinstance(n, ast.Subscript):
            base = self.expr(n.value, st)
            idx = self.index(n.slice, st)
            return self.subscript(base, idx, n, st)
        if isinstance(n, ast.Tuple):
            els = tuple(self.expr(e, st) for e in n.elts)
            if all(e[0] == "const" for e in els):
                return ("const", tuple(e[1] for e in els))
            return ("tuple", els)
        if isinstance(n, ast.List):
            return ("list", tuple(self.expr(e, st) for e in n.elts), self.site())
        if isinstance(n, ast.Set):
            return ("set", tuple(self.expr(e, st) for e in n.elts), self.site())
        if isinstance(n, ast.Dict):
            return ("dict", tuple((self.expr(k, st) if k is not None else ("const", "**"), self.expr(v, st))
                                  for k, v in zip(n.keys, n.values)), self.site())
        if isinstance(n, ast.JoinedStr):
            parts = []
            for v in n.values:
                if isinstance(v, ast.Constant):
                    parts.append(("const", v.value))
                elif isinstance(v, ast.FormattedValue):
                    spec = self.expr(v.format_spec, st) if v.format_spec is not None else ("const", "")
                    if spec[0] == "fstr" and all(p[0] == "const" for p in spec[1]):
                        spec = ("const", "".join(p[1] for p in spec[1]))
                    parts.append(("fmt", self.expr(v.value, st), v.conversion, spec))
            if all(p[0] == "const" for p in parts):
                return ("const", "".join(p[1] for p in parts))
            return ("fstr", tuple(parts))
        if isinstance(n, ast.Lambda):
            fi = next((x for x in self.prog.lambdas.values() if x.node is n), None)
            if fi is None:
                q = f"{(self.f.qual if self.f else self.m.name)}.<lambda@{n.lineno}:{n.col_offset}>"
                fi = FuncInfo(q, "<lambda>", n, self.m, None, self.f, "function", [])
                self.prog.lambdas[q] = fi
            self._closures[id(st.env)] = st.env
            return ("closure", fi.qual, id(st.env))
        if isinstance(n, (ast.ListComp, ast.SetComp, ast.GeneratorExp, ast.DictComp)):
            return self.comp(n, st)
        if isinstance(n, ast.NamedExpr):
            v = self.expr(n.value, st)
            self.assign(n.target, v, st, n)
            return v
        if isinstance(n, ast.Starred):
            return ("star", self.expr(n.value, st))
        if isinstance(n, ast.Slice):
            return self.index(n, st)
        if isinstance(n, (ast.Await, ast.Yield, ast.YieldFrom)):
            self.s.unsupported.append((type(n).__name__, getattr(n, "lineno", 0)))
            return ("unknown", type(n).__name__)
        self.s.unsupported.append((type(n).__name__, getattr(n, "lineno", 0)))
        return ("unknown", type(n).__name__)

    def subscript(self, base: Term, idx: Term, n: ast.AST, st: State) -> Term:
        # constant folding of literal containers
        if base[0] == "const" and idx[0] == "const" and isinstance(base[1], (tuple, str)):
            try:
                return ("const", base[1][idx[1]])
            except Exception:
                pass
        if base[0] == "const" and idx[0] == "slice" and isinstance(base[1], (str, tuple)):
            if all(x[0] == "const" for x in idx[1:]):
                return ("const", base[1][slice(idx[1][1], idx[2][1], idx[3][1])])
        # user-defined __getitem__ that is a trivial wrapper
        t = self.ev.types.type_of(base, self)
        if t is not None and t[0] == "tup" and idx[0] == "const" and isinstance(idx[1], int) and not isinstance(idx[1], bool) \
                and 0 <= idx[1] < len(t[1]):
            return mk_proj(base, idx[1])  # x[k] on a fixed-arity tuple is the same value as unpacking component k
        if t is not None and t[0] == "inst":
            c = self.prog.classes.get(t[1])
            if c is not None:
                gi = c.find_method("__getitem__")
                if gi is not None:
                    return self.call_func(gi, [base, idx], {}, st, n)
        return ("sub", base, idx)

    def comp(self, n, st: State) -> Term:
        env = st.env.copy()
        gens = []
        depth = sum(1 for _ in _enclosing_comps(st))
        for gi, g in enumerate(n.generators):
            it = self.expr(g.iter, State(env, st.cond))
            bname = f"_b{depth}_{gi}"
            bv = ("bv", bname)
            self._bind_target(g.target, bv, env)
            conds = tuple(self.expr(c, State(env, st.cond)) for c in g.ifs)
            gens.append((bv, it, conds))
        env.vars["__comp_depth__"] = ("const", depth + 1)
        inner = State(env, st.cond)
        if isinstance(n, ast.DictComp):
            elt = ("tuple", (self.expr(n.key, inner), self.expr(n.value, inner)))
            kind = "dict"
        else:
            elt = self.expr(n.elt, inner)
            kind = {"ListComp": "list", "SetComp": "set", "GeneratorExp": "gen"}[type(n).__name__]
        return ("comp", kind, elt, tuple(gens))

    # ------------------------------------------------------------------ calls
    def call(self, n: ast.Call, st: State, stmt_ctx: Any = False) -> Term:
        self._stmt_call = self._value_call = None
        # super()
        if isinstance(n.func, ast.Attribute) and isinstance(n.func.value, ast.Call) and \
                isinstance(n.func.value.func, ast.Name) and n.func.value.func.id == "super":
            return self.super_call(n, st)
        args = [self.expr(a, st) for a in n.args]
        kwargs = {}
        for k in n.keywords:
            if k.arg is None:
                kwargs["**"] = self.expr(k.value, st)
            else:
                kwargs[k.arg] = self.expr(k.value, st)
        if isinstance(n.func, ast.Attribute):
            recv = self.expr(n.func.value, st)
            meth = n.func.attr
            bound = self.attr(recv, meth, n.func)
            self._stmt_call = n if stmt_ctx is True else None  # (arguments are evaluated: nested calls have reset the marks)
            self._value_call = n if stmt_ctx == "value" else None
            # resolved to something static?
            if bound[0] in ("func", "class", "ext", "builtin", "newtype", "closure", "boundcls"):
                return self.apply(bound, args, kwargs, st, n)
            # method call on a value: resolve through the static type of the receiver
            res = self.resolve_method(recv, meth)
            if res is not None:
                f, bind_recv = res
                if f.kind == "staticmethod":
                    return self.call_func(f, args, kwargs, st, n)
                return self.call_func(f, [bind_recv] + args, kwargs, st, n)
            if meth in MUTATING_METHODS:
                self.effect("mutcall", recv, meth, tuple(args), st, n)
            return self.record(("meth", meth), [recv] + args, kwargs, st, n)
        fn = self.expr(n.func, st)
        self._stmt_call = n if stmt_ctx is True else None
        self._value_call = n if stmt_ctx == "value" else None
        return self.apply(fn, args, kwargs, st, n)

    def super_call(self, n: ast.Call, st: State) -> Term:
        meth = n.func.attr
        args = [self.expr(a, st) for a in n.args]
        kwargs = {k.arg: self.expr(k.value, st) for k in n.keywords if k.arg}
        c = self.owner_cls
        selfv = None
        if self.f is not None:
            ps = self.f.params()
            if ps:
                selfv = st.env.get(ps[0])
        if c is not None:
            # dynamic class of self may be a subclass; the static next-in-MRO of the *defining* class is used
            mro = c.pkg_mro()
            for k in mro[1:]:
                if meth in k.methods:
                    return self.call_func(k.methods[meth], [selfv or ("self", c.qual)] + args, kwargs, st, n)
        return self.record(("supermeth", meth), [selfv or ("unknown", "self")] + args, kwargs, st, n)

    def resolve_method(self, recv: Term, meth: str):
        """(FuncInfo, receiver-to-bind) for a method call on a value term, via static types."""
        if recv[0] == "self":
            c = self.prog.classes.get(recv[1])
            if c is not None:
                f = c.find_method(meth)
                if f is not None:
                    return f, recv if f.kind != "classmethod" else ("clsparam", c.qual)
            return None
        if recv[0] == "clsparam":
            c = self.prog.classes.get(recv[1])
            if c is not None:
                f = c.find_method(meth)
                if f is not None:
                    return f, recv
            return None
        t = self.ev.types.type_of(recv, self)
        if t is None:
            return None
        if t[0] == "inst":
            c = self.prog.classes.get(t[1])
            if c is not None:
                f = c.find_method(meth)
                if f is not None and f.kind not in ("property", "cached_property"):
                    return f, recv if f.kind != "classmethod" else ("class", c.qual)
        if t[0] == "type" and t[1][0] == "inst":
            c = self.prog.classes.get(t[1][1])
            if c is not None and recv[0] == "class":
                f = c.find_method(meth)
                if f is not None:
                    return f, recv
        return None

    def canon_call(self, fn: Term, args: list, kwargs: dict):
        """Canonical argument form: calls of package functions and constructors are keyed by parameter name."""
        if fn[0] in ("func", "closure", "boundcls"):
            f = self.prog.functions.get(fn[1]) or self.prog.lambdas.get(fn[1])
            if f is not None and not isinstance(f.node, ast.Lambda):
                b = bind_args(f, list(args), kwargs)
                if b is not None and f.node.args.vararg is None and f.node.args.kwarg is None:
                    return [], b
        if fn[0] in ("class", "clsparam"):
            c = self.prog.classes.get(fn[1])
            if c is not None and not c.is_enum():
                init = c.find_method("__init__")
                if init is not None:
                    b = bind_args(init, [("self", c.qual)] + list(args), kwargs)
                    if b is not None and init.node.args.vararg is None and init.node.args.kwarg is None:
                        b.pop(init.params()[0], None)
                        return [], b
                elif c.is_dataclass() and "**" not in kwargs and not any(a[0] == "star" for a in args):
                    fields = [f for f in c.dc_fields()]
                    kw_only = all((k.dataclass_args or {}).get("kw_only", False) for k in c.pkg_mro()
                                  if k.dataclass_args is not None)
                    if not args or not kw_only:
                        if len(args) <= len(fields):
                            b = {f.name: a for f, a in zip(fields, args)}
                            if not (set(b) & set(kwargs)):
                                b.update(kwargs)
                                return [], b
        return args, kwargs

    def record(self, fn: Term, args: list, kwargs: dict, st: State, n: ast.AST, result: Optional[Term] = None,
               inlined: bool = False) -> Term:
        args, kwargs = self.canon_call(fn, args, kwargs)
        kw = tuple(sorted(kwargs.items()))
        res = result if result is not None else ("call", fn, tuple(args), kw)
        self.s.calls.append(CallRec(fn, tuple(args), kw, st.cond, tuple(self.loop_stack), n, res,
                                    tuple(self.try_stack), inlined))
        return res

    def apply(self, fn: Term, args: list, kwargs: dict, st: State, n: ast.AST) -> Term:
        k = fn[0]
        if k == "newtype":
            if len(args) == 1:
                return args[0]
        if k == "ext":
            if fn[1] == "typing.cast" and len(args) == 2:
                return args[1]
            if fn[1] in ("typing.NewType", "typing.TypeVar"):
                return ("typeobj", fn[1], tuple(args))
            return self.record(fn, args, kwargs, st, n)
        if k == "builtin":
            r = self.fold_builtin(fn[1], args, kwargs)
            if r is not None:
                return r
            if fn[1] == "len" and len(args) == 1 and not kwargs:
                t = self.ev.types.type_of(args[0], self)
                if t is not None and t[0] == "inst":
                    c = self.prog.classes.get(t[1])
                    lf = c.find_method("__len__") if c is not None else None
                    if lf is not None:
                        return self.call_func(lf, [args[0]], {}, st, n)
            if fn[1] in ("setattr", "delattr") and args:
                self.effect("store_attr", args[0], args[1] if len(args) > 1 else None,
                            args[2] if len(args) > 2 else None, st, n)
            return self.record(fn, args, kwargs, st, n)
        if k == "func":
            f = self.prog.functions.get(fn[1])
            if f is not None:
                return self.call_func(f, args, kwargs, st, n)
        if k == "boundcls":
            f = self.prog.functions.get(fn[1])
            if f is not None:
                return self.call_func(f, [fn[2]] + args, kwargs, st, n)
        if k == "closure":
            f = self.prog.functions.get(fn[1]) or self.prog.lambdas.get(fn[1])
            if f is not None:
                env = self._closures.get(fn[2]) if len(fn) > 2 else None
                return self.call_func(f, args, kwargs, st, n, closure=env or st.env)
        if k == "class":
            return self.record(fn, args, kwargs, st, n)
        if k == "clsparam":
            return self.record(fn, args, kwargs, st, n)
        if k == "call" and fn[1] == ("ext", "operator.attrgetter") and len(fn[2]) == 1 and fn[2][0][0] == "const" and \
                isinstance(fn[2][0][1], str) and "." not in fn[2][0][1] and len(args) == 1 and not kwargs and not fn[3]:
            return ("attr", args[0], fn[2][0][1])  # operator.attrgetter("a")(x) is x.a
        if k == "ite":
            # call of a conditional callable
            return mk_ite(fn[1], self.apply(fn[2], args, kwargs, st, n), self.apply(fn[3], args, kwargs, st, n))
        if k == "attr" and fn[2] in MUTATING_METHODS:
            self.effect("mutcall", fn[1], fn[2], tuple(args), st, n)
        return self.record(fn, args, kwargs, st, n)

    def fold_builtin(self, name: str, args: list, kwargs: dict) -> Optional[Term]:
        if kwargs:
            return None
        if name == "any" and len(args) == 1 and args[0][0] == "comp" and args[0][1] in ("gen", "list") and args[0][2][0] == "not":
            # any(not P(x) for x in xs)  ==  not all(P(x) for x in xs): one normal form for the two spellings of a universal guard
            c_ = args[0]
            return mk_not(("call", ("builtin", "all"), (("comp", c_[1], c_[2][1], c_[3]),), ()))
        if name in ("isinstance", "issubclass") and len(args) == 2:
            r = self.ev.types.static_isinstance(name, args[0], args[1], self)
            if r is not None:
                return ("const", r)
            return None
        if name in ("int", "float", "str", "abs", "round", "len", "bool", "tuple", "sum", "min", "max") and \
                all(a[0] == "const" for a in args) and args:
            try:
                vals = [a[1] for a in args]
                if any(isinstance(v, str) and len(v) > 4096 for v in vals):
                    return None
                if name in ("int", "float") and isinstance(vals[0], str):
                    return None  # parsing strings is not arithmetic folding
                return ("const", getattr(_builtins, name)(*vals))
            except Exception:
                return None
        return None

    def _deep(self, callee: FuncInfo) -> bool:
        if not self.ev.deep_inline_in or callee.qual in self.ev.deep_protect:
            return False
        if callee.lru_cached:
            return False  # a memoised function is a unit of its own (with its own purity premises, C17), never a fragment of a caller
        root = self
        while getattr(root, "parent_eval", None) is not None:
            root = root.parent_eval
        return root.f is not None and root.f.qual in self.ev.deep_inline_in

    def call_func(self, f: FuncInfo, args: list, kwargs: dict, st: State, n: ast.AST, closure: Optional[Env] = None
                  ) -> Term:
        """Call of a resolved package function: inline when it is a trivial wrapper, else record."""
        fn = ("func", f.qual) if f.qual in self.prog.functions else ("closure", f.qual, 0)
        if f.is_abstract or self.depth >= 4:
            return self.record(fn, args, kwargs, st, n)
        bound = bind_args(f, args, kwargs)
        if bound is None:
            return self.record(fn, args, kwargs, st, n)
        # closures defined in this very evaluation use the *current* env chain
        cl = closure
        if cl is None and f.parent is not None:
            e: Optional[Env] = st.env
            cl = e
        if f.lru_cached or f.kind == "cached_property":
            pass  # memoisation is transparent for pure functions (checked by C17)
        try:
            sub = _FuncEval(self.ev, f, bound, cl, self.depth + 1, parent_eval=self)
            sm = sub.run()
        except RecursionError:
            return self.record(fn, args, kwargs, st, n)
        if (f.lru_cached or f.kind == "cached_property") and (sm.effects or any(
                c_.fn[0] == "meth" and c_.args and c_.args[0][0] == "logger" for c_ in sm.calls)):
            # memoisation is transparent only for pure functions: one that writes or logs does so on a cache miss only, so a call
            # of it is not its body
            return self.record(fn, args, kwargs, st, n)
        live = [e for e in sm.exits if e.kind in ("ret", "raise")]
        if getattr(self, "_stmt_call", None) is n and not sm.loops and not sm.effects and not sm.unsupported and not sm.trys:
            # a guard helper called for its checks only (`_validate(x, y)` as a statement): its raise exits become exits of the
            # caller, and the caller continues under the condition of the helper's single normal return
            raises = [e for e in live if e.kind == "raise"]
            rets = [e for e in live if e.kind == "ret"]
            if raises and len(rets) == 1 and not any(c.fn[0] in ("func", "closure", "boundcls") and not c.inlined for c in sm.calls):
                for e in raises:
                    self.s.exits.append(Exit("raise", e.value, st.cond + e.cond, e.node, tuple(self.loop_stack)))
                for c in sm.calls:
                    self.s.calls.append(CallRec(c.fn, c.args, c.kwargs, st.cond + c.cond, tuple(self.loop_stack), n,
                                                c.result, tuple(self.try_stack), c.inlined))
                ca, ck = self.canon_call(fn, list(args), dict(kwargs))
                self.s.calls.append(CallRec(fn, tuple(ca), tuple(sorted(ck.items())), st.cond, tuple(self.loop_stack), n,
                                            ("const", None), tuple(self.try_stack), True))
                st.cond = st.cond + rets[0].cond
                return ("const", None)
        leaf = not any(c.fn[0] in ("func", "closure", "boundcls") and not c.inlined for c in sm.calls)
        body = [b for b in getattr(f.node, "body", []) if not (isinstance(b, ast.Expr) and isinstance(b.value, ast.Constant))] \
            if not isinstance(f.node, ast.Lambda) else []
        expr_wrapper = isinstance(f.node, ast.Lambda) or (len(body) == 1 and isinstance(body[0], ast.Return))
        # a private helper (leading underscore) with a single unconditional return and no effect is a fragment of its caller: the
        # premises are about the public functions, so splitting one into private helpers (or merging them) must not matter
        private_helper = f.name.startswith("_") and not f.name.startswith("__") and not isinstance(f.node, ast.Lambda)
        if f.nested or f.nested_classes:
            leaf = expr_wrapper = private_helper = False  # a function that defines local helpers is a unit of its own
        whole_rhs = getattr(self, "_value_call", None) is n or getattr(self, "_stmt_call", None) is n or \
            (bool(self.ev.deep_inline_in) and id(n) in getattr(self, "_uncond", ()))  # evaluated whenever its statement is
        if (private_helper and len(live) > 1 and (whole_rhs or all(e.kind == "ret" for e in live))
                and not sm.loops and not sm.effects and not sm.unsupported and not sm.trys
                and all(e.kind in ("ret", "raise") for e in sm.exits)):
            # (a helper without raise exits is a pure conditional value: it can be inlined in any expression position)
            # a private helper that is a loop-free, effect-free decision (guards that raise, early returns) called as the whole
            # right-hand side of a statement: its raise exits become exits of the caller, its returns a conditional value, and the
            # caller continues under "the helper returned"
            raises = [e for e in live if e.kind == "raise"]
            rets = [e for e in live if e.kind == "ret"]
            val = _ret_tree(rets) if rets else None
            if val is not None and self._deep(f):
                self.ev.deep_inlined.add(f.qual)
                for e in raises:
                    self.s.exits.append(Exit("raise", e.value, st.cond + e.cond, e.node, tuple(self.loop_stack)))
                for c in sm.calls:
                    self.s.calls.append(CallRec(c.fn, c.args, c.kwargs, st.cond + c.cond, tuple(self.loop_stack), n,
                                                c.result, tuple(self.try_stack), c.inlined))
                ca, ck = self.canon_call(fn, list(args), dict(kwargs))
                self.s.calls.append(CallRec(fn, tuple(ca), tuple(sorted(ck.items())), st.cond, tuple(self.loop_stack), n,
                                            val, tuple(self.try_stack), True))
                if raises:
                    if len(rets) == 1:
                        st.cond = st.cond + rets[0].cond
                    else:
                        ds = tuple(_conj(e.cond) for e in rets)
                        if ("const", True) not in ds:
                            st.cond = st.cond + ((("or", ds), True),)
                return val
        if (private_helper and sm.loops and whole_rhs
                and not sm.unsupported and not sm.trys and self._deep(f)):
            # a private helper that contains loops and ends in one trailing return: its loops, effects, calls and early exits are
            # spliced into the caller (a loop moved out into a helper is still the caller's loop)
            rets = [e for e in sm.exits if e.kind == "ret"]
            if len(rets) == 1 and rets[0].loops == () and not any(lid in self.s.loops for lid in sm.loops):
                import dataclasses as _dc
                pc, pl = st.cond, tuple(self.loop_stack)
                outer = next((l for l in reversed(self.loop_stack) if not l.endswith(":else")), None)
                for lid, l in sm.loops.items():
                    self.s.loops[lid] = _dc.replace(
                        l, parent=l.parent if l.parent is not None else outer, depth=l.depth + len(pl), cond=pc + l.cond,
                        fall_cond=pc + l.fall_cond if l.fall_cond else l.fall_cond,
                        break_states=[(pc + c_, d_) for c_, d_ in l.break_states],
                        continue_updates=[(pc + c_, d_) for c_, d_ in l.continue_updates])
                for e in sm.exits:
                    if e is not rets[0]:
                        self.s.exits.append(Exit(e.kind, e.value, pc + e.cond, e.node, pl + e.loops, e.handled))
                for e in sm.effects:
                    self.s.effects.append(Effect(e.kind, e.target, e.key, e.value, pc + e.cond, pl + e.loops, e.node,
                                                 tuple(self.try_stack) + tuple(e.trys)))
                for c in sm.calls:
                    self.s.calls.append(CallRec(c.fn, c.args, c.kwargs, pc + c.cond, pl + c.loops, c.node, c.result,
                                                tuple(self.try_stack) + tuple(c.trys), c.inlined))
                ca, ck = self.canon_call(fn, list(args), dict(kwargs))
                self.s.calls.append(CallRec(fn, tuple(ca), tuple(sorted(ck.items())), st.cond, pl, n, rets[0].value,
                                            tuple(self.try_stack), True))
                st.cond = st.cond + rets[0].cond
                self.ev.deep_inlined.add(f.qual)
                return rets[0].value
        if (private_helper and getattr(self, "_stmt_call", None) is n and (sm.effects or sm.loops) and not sm.unsupported and not sm.trys
                and self._deep(f)):
            # a private *procedure* called as a statement (its value is discarded): whatever its early `return`s, the caller goes on
            # afterwards on every path that returns, so its effects, calls, loops and raise exits -- each under its own path condition
            # -- are the caller's (a loop body moved out into `_handle_one(x)` is still the loop's body)
            rets = [e for e in sm.exits if e.kind == "ret"]
            if rets and all(e.loops == () for e in rets) and all(e.kind in ("ret", "raise") or e.loops for e in sm.exits) \
                    and not any(lid in self.s.loops for lid in sm.loops):
                import dataclasses as _dc
                pc, pl = st.cond, tuple(self.loop_stack)
                outer = next((l for l in reversed(self.loop_stack) if not l.endswith(":else")), None)
                for lid, l in sm.loops.items():
                    self.s.loops[lid] = _dc.replace(
                        l, parent=l.parent if l.parent is not None else outer, depth=l.depth + len(pl), cond=pc + l.cond,
                        fall_cond=pc + l.fall_cond if l.fall_cond else l.fall_cond,
                        break_states=[(pc + c_, d_) for c_, d_ in l.break_states],
                        continue_updates=[(pc + c_, d_) for c_, d_ in l.continue_updates])
                for e in sm.exits:
                    if e.kind != "ret":
                        self.s.exits.append(Exit(e.kind, e.value, pc + e.cond, e.node, pl + e.loops, e.handled))
                for e in sm.effects:
                    self.s.effects.append(Effect(e.kind, e.target, e.key, e.value, pc + e.cond, pl + e.loops, e.node,
                                                 tuple(self.try_stack) + tuple(e.trys)))
                for c in sm.calls:
                    self.s.calls.append(CallRec(c.fn, c.args, c.kwargs, pc + c.cond, pl + c.loops, c.node, c.result,
                                                tuple(self.try_stack) + tuple(c.trys), c.inlined))
                ca, ck = self.canon_call(fn, list(args), dict(kwargs))
                self.s.calls.append(CallRec(fn, tuple(ca), tuple(sorted(ck.items())), st.cond, pl, n, ("const", None),
                                            tuple(self.try_stack), True))
                raises = [e for e in sm.exits if e.kind == "raise" and not e.loops]
                if raises:
                    ds = tuple(_conj(e.cond) for e in rets)
                    if ("const", True) not in ds:
                        st.cond = st.cond + (((ds[0] if len(ds) == 1 else ("or", ds)), True),)
                self.ev.deep_inlined.add(f.qual)
                return ("const", None)
        if (len(live) == 1 and live[0].kind == "ret" and not live[0].cond and not sm.loops and not sm.effects
                and not sm.unsupported and not sm.trys and (leaf or expr_wrapper or private_helper)):
            # single-return wrapper: inline the value; its own calls become call records of the caller
            val = live[0].value
            for c in sm.calls:
                self.s.calls.append(CallRec(c.fn, c.args, c.kwargs, st.cond + c.cond, tuple(self.loop_stack), n,
                                            c.result, tuple(self.try_stack), c.inlined))
            ca, ck = self.canon_call(fn, list(args), dict(kwargs))
            self.s.calls.append(CallRec(fn, tuple(ca), tuple(sorted(ck.items())), st.cond,
                                        tuple(self.loop_stack), n, val, tuple(self.try_stack), True))
            return val
        return self.record(fn, args, kwargs, st, n)


def _conj(es: tuple) -> Term:
    ts = tuple(a if p else mk_not(a) for a, p in es)
    if not ts:
        return ("const", True)
    return ts[0] if len(ts) == 1 else ("and", ts)


def _ret_tree(rets: list) -> Optional[Term]:
    """The value of a loop-free function as a decision tree over its return exits (their path conditions form a prefix tree
    when the function is structured code); None when they do not."""

    def build(es: list, d: int) -> Optional[Term]:
        if len(es) == 1:
            return es[0].value
        if any(len(e.cond) <= d for e in es):
            return None
        atom = es[0].cond[d][0]
        if any(e.cond[d][0] != atom for e in es):
            return None
        T = [e for e in es if e.cond[d][1]]
        F = [e for e in es if not e.cond[d][1]]
        if not T or not F:
            return build(es, d + 1)
        a, b = build(T, d + 1), build(F, d + 1)
        if a is None or b is None:
            return None
        return mk_ite(atom, a, b)

    return build(list(rets), 0)


_ASSIGNED_CACHE: dict = {}


def _assigned_names(f: FuncInfo) -> set:
    if f.qual not in _ASSIGNED_CACHE:
        out = set()
        from .srcmodel import walk_stmts

        for sub in walk_stmts(f.node.body if not isinstance(f.node, ast.Lambda) else []):
            if isinstance(sub, (ast.Assign, ast.AnnAssign, ast.AugAssign)):
                tg = sub.targets if isinstance(sub, ast.Assign) else [sub.target]
                for t in tg:
                    out.update(target_names(t))
            elif isinstance(sub, ast.For):
                out.update(target_names(sub.target))
            elif isinstance(sub, ast.With):
                for it in sub.items:
                    if it.optional_vars is not None:
                        out.update(target_names(it.optional_vars))
        _ASSIGNED_CACHE[f.qual] = out
    return _ASSIGNED_CACHE[f.qual]


def _enclosing_comps(st: State):
    d = st.env.get("__comp_depth__")
    if d is not None and d[0] == "const":
        for _ in range(d[1]):
            yield 1


def _as_load(t: ast.AST) -> ast.AST:
    import copy

    t2 = copy.copy(t)
    t2.ctx = ast.Load()  # type: ignore
    return t2


def bind_args(f: FuncInfo, args: list, kwargs: dict) -> Optional[dict]:
    """Map call arguments to parameter names (None if binding is not statically determined)."""
    a = f.node.args
    if any(x[0] == "star" for x in args) or "**" in kwargs:
        return None
    pos = [p.arg for p in a.posonlyargs + a.args]
    out = {}
    if len(args) > len(pos):
        if a.vararg is None:
            return None
        out[a.vararg.arg] = ("tuple", tuple(args[len(pos):]))
        args = args[: len(pos)]
    for p, v in zip(pos, args):
        out[p] = v
    kwnames = {p.arg for p in a.args + a.kwonlyargs}
    for k, v in kwargs.items():
        if k not in kwnames or k in out:
            if a.kwarg is None:
                return None
            continue
        out[k] = v
    # defaults that are constants
    defaults = {}
    for p, d in zip(pos[len(pos) - len(a.defaults):], a.defaults):
        defaults[p] = d
    for p, d in zip(a.kwonlyargs, a.kw_defaults):
        if d is not None:
            defaults[p.arg] = d
    for p, d in defaults.items():
        if p not in out and isinstance(d, ast.Constant):
            out[p] = ("const", d.value)
        elif p not in out and isinstance(d, ast.UnaryOp) and isinstance(d.operand, ast.Constant):
            out[p] = ("const", -d.operand.value)
    return out


# --------------------------------------------------------------------------------------------------
# term utilities


def subterms(t: Any):
    """All sub-terms (pre-order)."""
    if isinstance(t, tuple):
        if t and isinstance(t[0], str):
            yield t
        for x in t:
            if isinstance(x, tuple):
                yield from subterms(x)


def contains(t: Term, pred) -> bool:
    return any(pred(x) for x in subterms(t))


def show(t: Any, depth: int = 0) -> str:
    """Compact human-readable rendering of a term."""
    if not isinstance(t, tuple) or not t:
        return repr(t)
    k = t[0]
    if not isinstance(k, str):
        return "(" + ", ".join(show(x) for x in t) + ")"
    if k == "const":
        return repr(t[1])
    if k == "param":
        return t[1]
    if k == "self":
        return "self"
    if k == "clsparam":
        return "cls"
    if k in ("class", "func", "ext", "builtin", "newtype", "module", "gvar", "typevar", "logger"):
        return t[1].replace("chartparse.", "")
    if k == "closure":
        return t[1].replace("chartparse.", "")
    if k == "enum":
        return f"{t[1].replace('chartparse.', '')}.{t[2]}"
    if k == "cattr":
        return f"{t[1].replace('chartparse.', '')}.{t[2]}"
    if k == "attr":
        return f"{show(t[1])}.{t[2]}"
    if k == "call":
        a = [show(x) for x in t[2]] + [f"{n}={show(v)}" for n, v in t[3]]
        return f"{show(t[1])}({', '.join(a)})"
    if k == "meth":
        return f".{t[1]}"
    if k == "binop":
        return f"({show(t[2])} {t[1]} {show(t[3])})"
    if k == "cmp":
        return f"({show(t[2])} {t[1]} {show(t[3])})"
    if k == "not":
        return f"not {show(t[1])}"
    if k in ("and", "or"):
        return "(" + f" {k} ".join(show(x) for x in t[1]) + ")"
    if k == "ite":
        return f"({show(t[2])} if {show(t[1])} else {show(t[3])})"
    if k == "sub":
        return f"{show(t[1])}[{show(t[2])}]"
    if k == "slice":
        return ":".join("" if x == ("const", None) else show(x) for x in t[1:])
    if k == "proj":
        return f"{show(t[1])}#{t[2]}"
    if k in ("tuple",):
        return "(" + ", ".join(show(x) for x in t[1]) + ")"
    if k in ("list", "set"):
        return "[" + ", ".join(show(x) for x in t[1]) + "]"
    if k == "dict":
        return "{" + ", ".join(f"{show(a)}: {show(b)}" for a, b in t[1]) + "}"
    if k in ("lv", "la"):
        return f"{t[2]}@{k}.{t[1].split('@')[0]}"
    if k == "elem":
        return f"elem.{t[1].split('@')[0]}"
    if k == "bv":
        return t[1]
    if k == "comp":
        gens = " ".join(f"for {show(b)} in {show(i)}" + "".join(f" if {show(c)}" for c in cs) for b, i, cs in t[3])
        return f"<{t[1]}:{show(t[2])} {gens}>"
    if k == "fstr":
        return "f'" + "".join(p[1] if p[0] == "const" else "{" + show(p[1]) + "}" for p in t[1]) + "'"
    if k == "unop":
        return f"{t[1]}{show(t[2])}"
    return "<" + " ".join(show(x) if isinstance(x, tuple) else str(x) for x in t) + ">"
